#!/bin/bash
# Confirms a seeded change in a scratch worktree: builds, existing tests of touched packages pass with
# the change, the demonstration fails with it and passes without it. usage: seedverify.sh <seed> [pkgdir-of-demo]
export GOFLAGS=-mod=mod GOPROXY=off
seed=$1; d=/verif/seeded/$seed; wt=/tmp/wt_verify_$seed
git -C /repo worktree add -q --detach $wt HEAD || exit 2
cd $wt
pkgdir=${2:-$(grep -m1 '^+++ b/' $d/patch.diff | sed 's#+++ b/##; s#/[^/]*$##')}
git apply $d/patch.diff || { echo "$seed: patch does not apply"; cd /; git -C /repo worktree remove --force $wt; exit 2; }
go build ./... || echo "$seed: BUILD FAILS"
touched=$(grep '^+++ b/' $d/patch.diff | sed 's#+++ b/##; s#/[^/]*$##' | sort -u | sed 's#^#./#')
t1=$(go test -count=1 $touched 2>&1 | tail -3 | tr '\n' ' ')
cp $d/demo_test.go.txt $pkgdir/zz_demo_test.go
demo=$(grep -o 'func Test[A-Za-z0-9_]*' $pkgdir/zz_demo_test.go | sed 's/func //' | paste -sd'|')
go test -count=1 -run "$demo" ./$pkgdir >/tmp/sv_with_$seed.log 2>&1; with=$?
git apply -R $d/patch.diff
go test -count=1 -run "$demo" ./$pkgdir >/tmp/sv_without_$seed.log 2>&1; without=$?
echo "$seed: existing-tests-with-change=[$t1] demo-with-change-rc=$with demo-without-change-rc=$without"
cd /; git -C /repo worktree remove --force $wt
