#!/bin/sh
# runs every claimed check's quick (or $1) tier sequentially and prints one summary line each
cd /verif
tier=${1:-quick}
for id in $(python3 -c "import json;print(' '.join(c['property_id'] for c in json.load(open('MANIFEST.json'))['checks']))"); do
  s=$(date +%s)
  out=$(./check $id --tier $tier 2>&1); rc=$?
  e=$(date +%s)
  echo "$id rc=$rc $((e-s))s :: $(echo "$out" | grep -c '^INCONCLUSIVE') inconclusive :: $(echo "$out" | tail -1)"
  echo "$out" | grep -E '^(VIOLATION|ERROR|KNOWN-FINDING|INCONCLUSIVE)' | head -5
done
