#!/bin/sh
# usage: tools/seedtest.sh <seed-dir-name> <property> [tier]  — applies the seeded change to /repo, runs the check, reverts
cd /verif
seed=$1; prop=$2; tier=${3:-quick}
git -C /repo diff --quiet || { echo "repo dirty"; exit 2; }
git -C /repo apply /verif/seeded/$seed/patch.diff || { echo "patch does not apply"; exit 2; }
s=$(date +%s)
./check $prop --tier $tier --evidence /tmp/seed_ev_$seed.json > /tmp/seed_$seed.log 2>&1; rc=$?
e=$(date +%s)
git -C /repo checkout -- .
echo "SEED $seed property=$prop rc=$rc $((e-s))s :: $(grep -c '^VIOLATION' /tmp/seed_$seed.log) violation lines :: $(tail -1 /tmp/seed_$seed.log)"
grep '^  harness' /tmp/seed_$seed.log | head -3
