#!/bin/sh
# usage: tools/seedtest.sh <seed-dir-name> <property> [tier]
# applies the seeded change to a scratch worktree of /repo (never to /repo itself), points the check
# at it with VERIF_REPO, and removes the worktree afterwards.
cd /verif
seed=$1; prop=$2; tier=${3:-quick}
wt=/tmp/seedrepo_$seed
git -C /repo worktree add -q --detach $wt HEAD || exit 2
git -C $wt apply /verif/seeded/$seed/patch.diff || { echo "SEED $seed: patch does not apply"; git -C /repo worktree remove --force $wt; exit 2; }
s=$(date +%s)
VERIF_REPO=$wt ./check $prop --tier $tier --evidence /tmp/seed_ev_$seed.json > /tmp/seed_$seed.log 2>&1; rc=$?
e=$(date +%s)
git -C /repo worktree remove --force $wt
echo "SEED $seed property=$prop rc=$rc $((e-s))s :: $(grep -c '^VIOLATION' /tmp/seed_$seed.log) violation lines :: $(tail -1 /tmp/seed_$seed.log)"
grep '^  harness' /tmp/seed_$seed.log | head -3
