#!/usr/bin/env python3
"""Regenerates /verif/MANIFEST.json from specs/*.json and tools/manifest_meta.json."""
import json, os, glob
root = os.path.dirname(os.path.dirname(os.path.abspath(__file__)))
meta = json.load(open(os.path.join(root, "tools", "manifest_meta.json")))
props = [json.loads(l)["id"] for l in open(os.path.join(root, "properties.jsonl"))]
checks, na = [], []
for pid in props:
    m = meta["properties"].get(pid, {})
    spec = os.path.join(root, "specs", pid + ".json")
    if m.get("claimed") and os.path.exists(spec):
        sp = json.load(open(spec))
        checks.append({
            "property_id": pid,
            "quick_cmd": "./check %s --tier quick" % pid,
            "thorough_cmd": "./check %s --tier thorough" % pid,
            "evidence_file": "/verif/evidence/%s.json" % pid,
            "replay_cmd_template": "./check %s --replay {path}" % pid,
            "engine": "symgo",
            "level_claimed": {"category": sp.get("level", "model_checking"), "text": m["level_text"], "design_ref": m.get("design_ref", "DESIGN.md §4 " + pid)},
            "level_note": m["level_note"],
            "technique": m.get("technique", "bounded symbolic execution of the real go/ssa code; every assertion and run-time check decided by z3/cvc5; counterexamples replayed natively"),
        })
    else:
        na.append({"property_id": pid, "reason": m.get("na_reason", "check not built yet in this round (solver-based harness pending)")})
man = {
    "version": 1,
    "setup_cmd": "cd /verif/engine && GOFLAGS=-mod=mod GOPROXY=off go build -o ../bin/symgo .",
    "hooks": {"guard": "verif", "enable": "harness files carry //go:build verif and are injected by build overlay (go/packages Overlay, go test -overlay -tags verif); /repo holds no hook code", "baseline_off_cmd": meta["baseline_off_cmd"], "source_commits": [], "add_only": True},
    "engines": [{"name": "symgo", "path": "/verif/engine", "serves_properties": [c["property_id"] for c in checks],
                 "kind_free_text": "own symbolic executor over go/ssa (v0.29.0) of /repo, SMT back ends z3 5.1.0 (incremental + fresh-context) and cvc5 1.0; native replay through go test -overlay"}],
    "checks": checks,
    "not_applicable": na,
    "notes": meta.get("notes", ""),
}
json.dump(man, open(os.path.join(root, "MANIFEST.json"), "w"), indent=1)
print("checks:", [c["property_id"] for c in checks], "n/a:", len(na))
