//go:build verif

package main

import (
	"github.com/fabiolb/fabio/config"
	"github.com/fabiolb/fabio/internal/vp"
	"github.com/fabiolb/fabio/registry"
	"github.com/fabiolb/fabio/route"
)

const (
	vpCfgA   = "route add svc-a a.com/ http://a:1/"
	vpCfgB   = "route add svc-b b.com/ http://b:1/"
	vpCfgBad = "route add broken"
	vpManDel = "route del svc-a"
	vpCfgEnd = "route add svc-end end.com/ http://e:1/"
)

// an invalid configuration larger than the scanner's read chunk whose error is on the first line
func vpBigBad() string {
	s := vpCfgBad + "\n"
	for i := 0; i < 160; i++ {
		s += "route add svc-x x.com/ http://x:1/\n"
	}
	return s
}

type vpUpdate struct {
	manual bool
	text   string
}

// vpBackend is the registry stub: two unbuffered update channels and an observer on Register,
// which the update loop calls at the start of processing every new configuration.
type vpBackend struct {
	svc, man chan string
	updates  []vpUpdate
	regCalls int
	callIdx  []int // index of the update that causes the i-th Register call (skipped updates cause none)
	done     chan bool
}

func (b *vpBackend) DeregisterAll() error                    { return nil }
func (b *vpBackend) Deregister(string) error                 { return nil }
func (b *vpBackend) ManualPaths() ([]string, error)          { return nil, nil }
func (b *vpBackend) ReadManual(string) (string, uint64, error) { return "", 0, nil }
func (b *vpBackend) WriteManual(string, string, uint64) (bool, error) {
	return false, nil
}
func (b *vpBackend) WatchServices() chan string    { return b.svc }
func (b *vpBackend) WatchManual() chan string      { return b.man }
func (b *vpBackend) WatchNoRouteHTML() chan string { return nil }

func vpInvalid(text string) bool { return len(text) >= len(vpCfgBad) && text[:len(vpCfgBad)] == vpCfgBad }

func vpRouted(host string) bool {
	return route.GetTable().LookupHost(host, route.Picker["rr"]) != nil
}

// expected active table after the first n updates: the last combination of service and manual
// text in which both parts are valid (manual commands applied after the service routes)
func (b *vpBackend) expected(n int) (a, bb, end bool) {
	svc, man := "", ""
	for i := 0; i < n && i < len(b.updates); i++ {
		u := b.updates[i]
		if u.manual {
			man = u.text
		} else {
			svc = u.text
		}
		if !vpInvalid(svc) && !vpInvalid(man) {
			a = svc == vpCfgA && man != vpManDel
			bb = svc == vpCfgB
			end = svc == vpCfgEnd
		}
	}
	return
}

// Register is called once per processed update, before the new table is built: everything
// received earlier has been fully dealt with at this point.
func (b *vpBackend) Register(services []string) error {
	b.regCalls++
	vp.Assert(b.regCalls <= len(b.callIdx), "no-unexpected-table-build")
	processed := b.callIdx[b.regCalls-1] // updates completely processed before this one
	a, bb, end := b.expected(processed)
	vp.Assert(vpRouted("a.com") == a, "table-is-the-last-valid-configuration-a")
	vp.Assert(vpRouted("b.com") == bb, "table-is-the-last-valid-configuration-b")
	vp.Assert(vpRouted("end.com") == end, "table-is-the-last-valid-configuration-end")
	if b.regCalls == len(b.callIdx) {
		close(b.done)
	}
	return nil
}

// VPH_C02_watch: every finite sequence (here: three) of valid and invalid service / manual
// configuration updates: an invalid update leaves the previous table serving, the next valid one
// is applied, manual commands are applied on top of the latest service routes.
func VPH_C02_watch() {
	b := &vpBackend{svc: make(chan string), man: make(chan string), done: make(chan bool)}
	registry.Default = b
	route.SetTable(make(route.Table))
	cfg := &config.Config{}
	cfg.Registry.Backend = "consul"
	cfg.Log.RoutesFormat = "all"
	n := vp.Param("UPDATES")
	for i := 0; i < n; i++ {
		u := vpUpdate{manual: vp.Bool("manual")}
		if u.manual {
			switch vp.Choice("manual-text", 3) {
			case 0:
				u.text = vpManDel
			case 1:
				u.text = vpCfgBad
				vp.Cover("invalid-manual")
			default:
				u.text = "# nothing"
			}
		} else {
			switch vp.Choice("service-text", 4) {
			case 0:
				u.text = vpCfgA
			case 1:
				u.text = vpCfgB
			case 2:
				u.text = vpBigBad()
				vp.Cover("large-invalid-service")
			default:
				u.text = vpCfgBad
				vp.Cover("invalid-service")
			}
		}
		// every update changes the text of its source (the registry only pushes differences)
		for j := i - 1; j >= 0; j-- {
			if b.updates[j].manual == u.manual {
				vp.Assume(b.updates[j].text != u.text)
				break
			}
		}
		b.updates = append(b.updates, u)
	}
	// a final, always new and valid service update makes the loop report the state after the last one
	b.updates = append(b.updates, vpUpdate{text: vpCfgEnd})
	// an update whose combined text equals the last installed text is skipped by the loop
	svc, man, last := "", "", ""
	for i, u := range b.updates {
		if u.manual {
			man = u.text
		} else {
			svc = u.text
		}
		next := svc + "\n" + man
		if next == last {
			vp.Cover("unchanged-text-skipped")
			continue
		}
		b.callIdx = append(b.callIdx, i)
		if !vpInvalid(svc) && !vpInvalid(man) {
			last = next
		}
	}
	first := make(chan bool)
	go watchBackend(cfg, nil, first)
	for _, u := range b.updates {
		if u.manual {
			b.man <- u.text
		} else {
			b.svc <- u.text
		}
	}
	<-b.done
	vp.Cover("all-updates-observed")
}
