//go:build verif

package transport

import (
	"crypto/tls"
	"net"
	"time"

	"github.com/fabiolb/fabio/config"
	"github.com/fabiolb/fabio/internal/vp"
)

// VPH_C19_transport: the transport built after SetConfig carries the configured limits.
func VPH_C19_transport() {
	c := &config.Config{}
	c.Proxy.ResponseHeaderTimeout = time.Duration(vp.Int64("rht"))
	c.Proxy.IdleConnTimeout = time.Duration(vp.Int64("ict"))
	c.Proxy.MaxConn = vp.Int("maxconn")
	c.Proxy.DialTimeout = time.Duration(vp.Int64("dial"))
	c.Proxy.KeepAliveTimeout = time.Duration(vp.Int64("keepalive"))
	SetConfig(c)
	tc := &tls.Config{InsecureSkipVerify: vp.Bool("skipverify")}
	t := NewTransport(tc)
	vp.Assert(t.ResponseHeaderTimeout == c.Proxy.ResponseHeaderTimeout, "response-header-timeout")
	vp.Assert(t.IdleConnTimeout == c.Proxy.IdleConnTimeout, "idle-conn-timeout")
	vp.Assert(t.MaxIdleConnsPerHost == c.Proxy.MaxConn, "max-idle-conns-per-host")
	vp.Assert(t.TLSClientConfig == tc, "tls-config")
	vp.Assert(t.Dial != nil, "dialer-set")
	d := (*net.Dialer)(vp.BoundReceiver(t.Dial))
	vp.Assert(d != nil, "dialer-is-net-dialer")
	if d != nil {
		vp.Assert(d.Timeout == c.Proxy.DialTimeout, "dial-timeout")
		vp.Assert(d.KeepAlive == c.Proxy.KeepAliveTimeout, "keep-alive")
	}
}
