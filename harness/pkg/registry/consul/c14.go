//go:build verif

package consul

import (
	"bytes"
	"net"
	"strconv"
	"strings"

	"github.com/fabiolb/fabio/internal/vp"
	"github.com/fabiolb/fabio/route"
	"github.com/hashicorp/consul/api"
)

// vpCheckCmds: every generated command is accepted by fabio's parser and denotes the registration.
func vpCheckCmds(cmds []string, name, src, addrport string) {
	for _, cmd := range cmds {
		vp.Cover("command-generated")
		defs, err := route.Parse(bytes.NewBufferString(cmd))
		vp.Assert(err == nil, "generated-command-accepted-by-parser")
		if err != nil {
			return
		}
		vp.Assert(len(defs) == 1, "one-command-per-routing-tag")
		if len(defs) != 1 {
			return
		}
		d := defs[0]
		vp.Assert(d.Cmd == route.RouteAddCmd && d.Service == name, "denotes-the-service")
		vp.Assert(d.Src == src, "denotes-the-prefix")
		vp.Assert(d.Dst == "http://"+addrport+"/", "denotes-the-destination")
	}
}

// vpChars is a string of at most max characters over set; the length is chosen first, so the string has
// a concrete shape with symbolic characters.
func vpChars(label, set string, max int) string {
	n := vp.Choice(label+"-len", max+1)
	for i := 0; i < max; i++ {
		if n == i {
			return vp.Chars(label, set, i)
		}
	}
	return vp.Chars(label, set, max)
}

// VPH_C14_tags: a service with an arbitrary additional tag (quotes, backslashes, commas, white space).
func VPH_C14_tags() {
	other := vpChars("othertag", "a-z \"\\,=\t\n#/", vp.Param("LEN"))
	host := "foo.com"
	if vp.Bool("upper-case-host") {
		host = "Foo.COM"
	}
	svc := &api.CatalogService{ServiceName: "svc", ServiceAddress: "1.2.3.4", ServicePort: 8080, ServiceTags: []string{"urlprefix-" + host + "/x", other}}
	cmds := routecmd{svc: svc, prefix: "urlprefix-"}.build()
	vp.Assert(len(cmds) <= 1, "at-most-one-command-per-routing-tag")
	vpCheckCmds(cmds, "svc", "foo.com/x", "1.2.3.4:8080")
	if !strings.ContainsAny(other, "\"\n") {
		// the registration is expressible: it must not be dropped
		vp.Assert(len(cmds) == 1, "expressible-registration-kept")
	}
	if len(cmds) == 1 && !strings.ContainsAny(other, ",") {
		vp.Cover("plain-tag")
		defs, err := route.Parse(bytes.NewBufferString(cmds[0]))
		if err == nil && len(defs) == 1 {
			if strings.TrimSpace(other) == "" {
				vp.Assert(len(defs[0].Tags) <= 1, "denotes-the-tags")
			} else {
				vp.Assert(len(defs[0].Tags) == 1 && defs[0].Tags[0] == strings.TrimSpace(other), "denotes-the-tags")
			}
		}
	}
}

// VPH_C14_weight: a routing tag with an arbitrary weight= option text.
func VPH_C14_weight() {
	w := vpChars("weight", "0-9a-zA-Z.+-", vp.Param("LEN"))
	svc := &api.CatalogService{ServiceName: "svc", ServiceAddress: "1.2.3.4", ServicePort: 8080, ServiceTags: []string{"urlprefix-foo.com/x weight=" + w + " strip=/x"}}
	cmds := routecmd{svc: svc, prefix: "urlprefix-"}.build()
	vp.Assert(len(cmds) <= 1, "at-most-one-command-per-routing-tag")
	vpCheckCmds(cmds, "svc", "foo.com/x", "1.2.3.4:8080")
	if len(cmds) == 1 {
		defs, err := route.Parse(bytes.NewBufferString(cmds[0]))
		if err == nil && len(defs) == 1 {
			vp.Cover("weight-accepted")
			vp.Assert(defs[0].Opts["strip"] == "/x" && len(defs[0].Opts) == 1, "denotes-the-options")
			if w == "" {
				vp.Assert(defs[0].Weight == 0, "denotes-the-weight")
			} else {
				f, err := strconv.ParseFloat(w, 64)
				vp.Assert(err == nil && (f == defs[0].Weight || f != f), "denotes-the-weight")
			}
		}
	}
	if w == "" || w == "0.5" || w == "1" {
		vp.Assert(len(cmds) == 1, "expressible-registration-kept")
	}
}

// VPH_C14_opts: a routing tag with an arbitrary option string.
func VPH_C14_opts() {
	o := vpChars("opts", "a-z =\"\\/", vp.Param("LEN"))
	svc := &api.CatalogService{ServiceName: "svc", ServiceAddress: "1.2.3.4", ServicePort: 8080, ServiceTags: []string{"urlprefix-foo.com/x " + o}}
	cmds := routecmd{svc: svc, prefix: "urlprefix-"}.build()
	vp.Assert(len(cmds) <= 1, "at-most-one-command-per-routing-tag")
	vpCheckCmds(cmds, "svc", "foo.com/x", "1.2.3.4:8080")
	if !strings.ContainsAny(o, "\"") {
		vp.Assert(len(cmds) == 1, "expressible-registration-kept")
	}
	if len(cmds) == 1 {
		defs, err := route.Parse(bytes.NewBufferString(cmds[0]))
		if err == nil && len(defs) == 1 {
			vp.Cover("opts-accepted")
			// every option of the tag is an option of the command
			fields := strings.Fields(o)
			for _, f := range fields {
				k, v := f, ""
				if i := strings.Index(f, "="); i >= 0 {
					k, v = f[:i], f[i+1:]
				}
				got, ok := defs[0].Opts[k]
				vp.Assert(ok, "denotes-the-options")
				// the value is everything after the first '=' (with several fields a later one may share the key)
				if ok && len(fields) == 1 {
					vp.Assert(got == v, "denotes-the-option-values")
				}
			}
		}
	}
}

// VPH_C14_names: arbitrary service name and address text.
func VPH_C14_names() {
	n := vp.Param("LEN")
	name := vpChars("name", "a-zA-Z0-9._ \"-", n)
	addr := vpChars("addr", "0-9a-z.: ", n)
	vp.Assume(name != "" && addr != "")
	svc := &api.CatalogService{ServiceName: name, ServiceAddress: addr, ServicePort: 8080, ServiceTags: []string{"urlprefix-foo.com/x"}}
	cmds := routecmd{svc: svc, prefix: "urlprefix-"}.build()
	vp.Assert(len(cmds) <= 1, "at-most-one-command-per-routing-tag")
	vpCheckCmds(cmds, name, "foo.com/x", net.JoinHostPort(addr, "8080"))
	if !strings.ContainsAny(name, " ") && !strings.ContainsAny(addr, " ") {
		vp.Assert(len(cmds) == 1, "expressible-registration-kept")
	}
}

// VPH_C14_alongside: an arbitrary registration next to a well-formed one never blocks the table update.
func VPH_C14_alongside() {
	other := vpChars("othertag", "a-z \"\\,\n", vp.Param("LEN"))
	w := vpChars("weight", "0-9a-z.", vp.Param("LEN"))
	bad := &api.CatalogService{ServiceName: "bad", ServiceAddress: "1.2.3.4", ServicePort: 8080, ServiceTags: []string{"urlprefix-foo.com/x weight=" + w, other}}
	good := &api.CatalogService{ServiceName: "good", ServiceAddress: "5.6.7.8", ServicePort: 9090, ServiceTags: []string{"urlprefix-bar.com/y"}}
	cmds := routecmd{svc: bad, prefix: "urlprefix-"}.build()
	cmds = append(cmds, routecmd{svc: good, prefix: "urlprefix-"}.build()...)
	defs, err := route.Parse(bytes.NewBufferString(strings.Join(cmds, "\n")))
	vp.Assert(err == nil, "config-accepted-by-parser")
	if err != nil {
		return
	}
	found := false
	for _, d := range defs {
		vp.Assert(d.Cmd == route.RouteAddCmd && (d.Service == "good" || d.Service == "bad"), "only-registered-services")
		if d.Service == "good" && d.Src == "bar.com/y" && d.Dst == "http://5.6.7.8:9090/" {
			found = true
		}
	}
	vp.Assert(found, "well-formed-service-routed")
	vp.Assert(len(defs) <= 2, "no-extra-commands")
}

// vpPick forks over 0..n-1 so that the result is a concrete index on every path.
func vpPick(label string, n int) int {
	c := vp.Choice(label, n)
	for i := 0; i < n-1; i++ {
		if c == i {
			return i
		}
	}
	return n - 1
}

// VPH_C14_prefix: an arbitrary host/path text in the routing tag.
func VPH_C14_prefix() {
	hp := vpChars("hostpath", "a-zA-Z./: \t\"", vp.Param("LEN"))
	svc := &api.CatalogService{ServiceName: "svc", ServiceAddress: "1.2.3.4", ServicePort: 8080, ServiceTags: []string{"urlprefix-" + hp}}
	cmds := routecmd{svc: svc, prefix: "urlprefix-"}.build()
	vp.Assert(len(cmds) <= 1, "at-most-one-command-per-routing-tag")
	// reference: the prefix a registration denotes
	s := strings.TrimSpace(hp)
	opts := ""
	if i := strings.Index(s, " "); i >= 0 {
		s, opts = s[:i], s[i+1:]
	}
	want := s
	if !strings.HasPrefix(s, ":") {
		if i := strings.Index(s, "/"); i >= 0 {
			want = strings.ToLower(s[:i]) + "/" + s[i+1:]
		}
	}
	vpCheckCmds(cmds, "svc", want, "1.2.3.4:8080")
	if want != "" && !strings.ContainsAny(s, "\t") && !strings.ContainsAny(opts, "\"") {
		vp.Assert(len(cmds) == 1, "expressible-registration-kept")
	}
	if len(cmds) == 1 {
		vp.Cover("prefix-accepted")
	}
}

// VPH_C14_proto: protocol options and addresses (IPv4, IPv6, host names) with boundary ports.
func VPH_C14_proto() {
	protos := []string{"", "proto=tcp", "proto=https", "proto=grpc", "proto=grpcs", "proto=http"}
	schemes := []string{"http", "tcp", "https", "grpc", "grpcs", "http"}
	addrs := []string{"1.2.3.4", "::1", "fe80::1%eth0", "backend.local"}
	ports := []int{0, 80, 65535}
	pi, ai, qi := vpPick("proto", len(protos)), vpPick("addr", len(addrs)), vpPick("port", len(ports))
	proto, scheme, addr, port := protos[pi], schemes[pi], addrs[ai], ports[qi]
	extra := vpChars("extra", "a-z= ", vp.Param("LEN"))
	svc := &api.CatalogService{ServiceName: "svc", ServiceAddress: addr, ServicePort: port, ServiceTags: []string{"urlprefix-:" + strconv.Itoa(port) + " " + proto + " " + extra}}
	cmds := routecmd{svc: svc, prefix: "urlprefix-"}.build()
	vp.Assert(len(cmds) == 1, "expressible-registration-kept")
	if len(cmds) != 1 {
		return
	}
	defs, err := route.Parse(bytes.NewBufferString(cmds[0]))
	vp.Assert(err == nil && len(defs) == 1, "generated-command-accepted-by-parser")
	if err != nil || len(defs) != 1 {
		return
	}
	vp.Cover("proto-accepted")
	d := defs[0]
	hostport := net.JoinHostPort(addr, strconv.Itoa(port))
	if strings.HasPrefix(extra, "proto=") || strings.Contains(extra, " proto=") {
		// a second proto option may override the first
		return
	}
	if scheme == "http" && proto != "proto=http" {
		vp.Assert(d.Dst == "http://"+hostport+"/", "denotes-the-destination")
	} else if proto != "proto=http" {
		vp.Assert(d.Dst == scheme+"://"+hostport, "denotes-the-protocol")
	}
	vp.Assert(d.Src == ":"+strconv.Itoa(port) && d.Service == "svc", "denotes-the-prefix")
}

func vpItoa(n int) string {
	if n == 0 {
		return "0"
	}
	s := ""
	for n > 0 {
		s = string(rune('0'+n%10)) + s
		n /= 10
	}
	return s
}
