//go:build verif

package consul

import (
	"bytes"
	"net"
	"strconv"
	"strings"

	"github.com/fabiolb/fabio/internal/vp"
	"github.com/fabiolb/fabio/route"
	"github.com/hashicorp/consul/api"
)

// vpCheckCmds: every generated command is accepted by fabio's parser and denotes the registration.
func vpCheckCmds(cmds []string, name, src, addrport string) {
	for _, cmd := range cmds {
		vp.Cover("command-generated")
		defs, err := route.Parse(bytes.NewBufferString(cmd))
		vp.Assert(err == nil, "generated-command-accepted-by-parser")
		if err != nil {
			return
		}
		vp.Assert(len(defs) == 1, "one-command-per-routing-tag")
		if len(defs) != 1 {
			return
		}
		d := defs[0]
		vp.Assert(d.Cmd == route.RouteAddCmd && d.Service == name, "denotes-the-service")
		vp.Assert(d.Src == src, "denotes-the-prefix")
		vp.Assert(d.Dst == "http://"+addrport+"/", "denotes-the-destination")
	}
}

// vpChars is a string of at most max characters over set; the length is chosen first, so the string has
// a concrete shape with symbolic characters.
func vpChars(label, set string, max int) string {
	n := vp.Choice(label+"-len", max+1)
	for i := 0; i < max; i++ {
		if n == i {
			return vp.Chars(label, set, i)
		}
	}
	return vp.Chars(label, set, max)
}

// VPH_C14_tags: a service with an arbitrary additional tag (quotes, backslashes, commas, white space).
func VPH_C14_tags() {
	other := vpChars("othertag", "a-z \"\\,=\t\n", vp.Param("LEN"))
	host := "foo.com"
	if vp.Bool("upper-case-host") {
		host = "Foo.COM"
	}
	svc := &api.CatalogService{ServiceName: "svc", ServiceAddress: "1.2.3.4", ServicePort: 8080, ServiceTags: []string{"urlprefix-" + host + "/x", other}}
	cmds := routecmd{svc: svc, prefix: "urlprefix-"}.build()
	vp.Assert(len(cmds) <= 1, "at-most-one-command-per-routing-tag")
	vpCheckCmds(cmds, "svc", "foo.com/x", "1.2.3.4:8080")
	if !strings.ContainsAny(other, "\"\n") {
		// the registration is expressible: it must not be dropped
		vp.Assert(len(cmds) == 1, "expressible-registration-kept")
	}
	if len(cmds) == 1 && !strings.ContainsAny(other, ",") {
		vp.Cover("plain-tag")
		defs, err := route.Parse(bytes.NewBufferString(cmds[0]))
		if err == nil && len(defs) == 1 {
			if strings.TrimSpace(other) == "" {
				vp.Assert(len(defs[0].Tags) <= 1, "denotes-the-tags")
			} else {
				vp.Assert(len(defs[0].Tags) == 1 && defs[0].Tags[0] == strings.TrimSpace(other), "denotes-the-tags")
			}
		}
	}
}

// VPH_C14_weight: a routing tag with an arbitrary weight= option text.
func VPH_C14_weight() {
	w := vpChars("weight", "0-9a-zA-Z.+-", vp.Param("LEN"))
	svc := &api.CatalogService{ServiceName: "svc", ServiceAddress: "1.2.3.4", ServicePort: 8080, ServiceTags: []string{"urlprefix-foo.com/x weight=" + w + " strip=/x"}}
	cmds := routecmd{svc: svc, prefix: "urlprefix-"}.build()
	vp.Assert(len(cmds) <= 1, "at-most-one-command-per-routing-tag")
	vpCheckCmds(cmds, "svc", "foo.com/x", "1.2.3.4:8080")
	if len(cmds) == 1 {
		defs, err := route.Parse(bytes.NewBufferString(cmds[0]))
		if err == nil && len(defs) == 1 {
			vp.Cover("weight-accepted")
			vp.Assert(defs[0].Opts["strip"] == "/x" && len(defs[0].Opts) == 1, "denotes-the-options")
			if w == "" {
				vp.Assert(defs[0].Weight == 0, "denotes-the-weight")
			} else {
				f, err := strconv.ParseFloat(w, 64)
				vp.Assert(err == nil && (f == defs[0].Weight || f != f), "denotes-the-weight")
			}
		}
	}
	if w == "" || w == "0.5" || w == "1" {
		vp.Assert(len(cmds) == 1, "expressible-registration-kept")
	}
}

// VPH_C14_opts: a routing tag with an arbitrary option string.
func VPH_C14_opts() {
	o := vpChars("opts", "a-z =\"\\/", vp.Param("LEN"))
	svc := &api.CatalogService{ServiceName: "svc", ServiceAddress: "1.2.3.4", ServicePort: 8080, ServiceTags: []string{"urlprefix-foo.com/x " + o}}
	cmds := routecmd{svc: svc, prefix: "urlprefix-"}.build()
	vp.Assert(len(cmds) <= 1, "at-most-one-command-per-routing-tag")
	vpCheckCmds(cmds, "svc", "foo.com/x", "1.2.3.4:8080")
	if !strings.ContainsAny(o, "\"") {
		vp.Assert(len(cmds) == 1, "expressible-registration-kept")
	}
	if len(cmds) == 1 {
		defs, err := route.Parse(bytes.NewBufferString(cmds[0]))
		if err == nil && len(defs) == 1 {
			vp.Cover("opts-accepted")
			// every option of the tag is an option of the command
			for _, f := range strings.Fields(o) {
				k := f
				if i := strings.Index(f, "="); i >= 0 {
					k = f[:i]
				}
				_, ok := defs[0].Opts[k]
				vp.Assert(ok, "denotes-the-options")
			}
		}
	}
}

// VPH_C14_names: arbitrary service name and address text.
func VPH_C14_names() {
	n := vp.Param("LEN")
	name := vpChars("name", "a-zA-Z0-9._ \"-", n)
	addr := vpChars("addr", "0-9a-z.: ", n)
	vp.Assume(name != "" && addr != "")
	svc := &api.CatalogService{ServiceName: name, ServiceAddress: addr, ServicePort: 8080, ServiceTags: []string{"urlprefix-foo.com/x"}}
	cmds := routecmd{svc: svc, prefix: "urlprefix-"}.build()
	vp.Assert(len(cmds) <= 1, "at-most-one-command-per-routing-tag")
	vpCheckCmds(cmds, name, "foo.com/x", net.JoinHostPort(addr, "8080"))
	if !strings.ContainsAny(name, " ") && !strings.ContainsAny(addr, " ") {
		vp.Assert(len(cmds) == 1, "expressible-registration-kept")
	}
}

// VPH_C14_alongside: an arbitrary registration next to a well-formed one never blocks the table update.
func VPH_C14_alongside() {
	other := vpChars("othertag", "a-z \"\\,\n", vp.Param("LEN"))
	w := vpChars("weight", "0-9a-z.", vp.Param("LEN"))
	bad := &api.CatalogService{ServiceName: "bad", ServiceAddress: "1.2.3.4", ServicePort: 8080, ServiceTags: []string{"urlprefix-foo.com/x weight=" + w, other}}
	good := &api.CatalogService{ServiceName: "good", ServiceAddress: "5.6.7.8", ServicePort: 9090, ServiceTags: []string{"urlprefix-bar.com/y"}}
	cmds := routecmd{svc: bad, prefix: "urlprefix-"}.build()
	cmds = append(cmds, routecmd{svc: good, prefix: "urlprefix-"}.build()...)
	defs, err := route.Parse(bytes.NewBufferString(strings.Join(cmds, "\n")))
	vp.Assert(err == nil, "config-accepted-by-parser")
	if err != nil {
		return
	}
	found := false
	for _, d := range defs {
		vp.Assert(d.Cmd == route.RouteAddCmd && (d.Service == "good" || d.Service == "bad"), "only-registered-services")
		if d.Service == "good" && d.Src == "bar.com/y" && d.Dst == "http://5.6.7.8:9090/" {
			found = true
		}
	}
	vp.Assert(found, "well-formed-service-routed")
	vp.Assert(len(defs) <= 2, "no-extra-commands")
}

func vpItoa(n int) string {
	if n == 0 {
		return "0"
	}
	s := ""
	for n > 0 {
		s = string(rune('0'+n%10)) + s
		n /= 10
	}
	return s
}
