//go:build verif

package consul

import (
	"bytes"
	"strings"

	"github.com/fabiolb/fabio/internal/vp"
	"github.com/fabiolb/fabio/route"
	"github.com/hashicorp/consul/api"
)

// vpCheckCmds: every generated command is accepted by fabio's parser and denotes the registration.
func vpCheckCmds(cmds []string, name, src, addrport string) {
	for _, cmd := range cmds {
		vp.Cover("command-generated")
		defs, err := route.Parse(bytes.NewBufferString(cmd))
		vp.Assert(err == nil, "generated-command-accepted-by-parser")
		if err != nil {
			return
		}
		vp.Assert(len(defs) == 1, "one-command-per-routing-tag")
		if len(defs) != 1 {
			return
		}
		d := defs[0]
		vp.Assert(d.Cmd == route.RouteAddCmd && d.Service == name, "denotes-the-service")
		vp.Assert(d.Src == src, "denotes-the-prefix")
		vp.Assert(d.Dst == "http://"+addrport+"/", "denotes-the-destination")
	}
}

// VPH_C14_tags: a service with an arbitrary additional tag (quotes, backslashes, commas, spaces).
func VPH_C14_tags() {
	other := vp.StringOf("othertag", "a-z \"\\,=", vp.Param("LEN"))
	host := "foo.com"
	if vp.Bool("upper-case-host") {
		host = "Foo.COM"
	}
	svc := &api.CatalogService{ServiceName: "svc", ServiceAddress: "1.2.3.4", ServicePort: 8080, ServiceTags: []string{"urlprefix-" + host + "/x", other}}
	cmds := routecmd{svc: svc, prefix: "urlprefix-"}.build()
	vpCheckCmds(cmds, "svc", "foo.com/x", "1.2.3.4:8080")
	if len(cmds) == 1 && strings.TrimSpace(other) != "" && !strings.ContainsAny(other, "\"\\,") {
		vp.Cover("plain-tag")
		defs, err := route.Parse(bytes.NewBufferString(cmds[0]))
		if err == nil && len(defs) == 1 {
			vp.Assert(len(defs[0].Tags) == 1 && defs[0].Tags[0] == strings.TrimSpace(other), "denotes-the-tags")
		}
	}
}

// VPH_C14_weight: a routing tag with an arbitrary weight= option text.
func VPH_C14_weight() {
	w := vp.StringOf("weight", "0-9a-zA-Z.+-", vp.Param("LEN"))
	svc := &api.CatalogService{ServiceName: "svc", ServiceAddress: "1.2.3.4", ServicePort: 8080, ServiceTags: []string{"urlprefix-foo.com/x weight=" + w + " strip=/x"}}
	cmds := routecmd{svc: svc, prefix: "urlprefix-"}.build()
	vpCheckCmds(cmds, "svc", "foo.com/x", "1.2.3.4:8080")
}

// VPH_C14_names: arbitrary service name and address text.
func VPH_C14_names() {
	n := vp.Param("LEN")
	name := vp.StringOf("name", "a-zA-Z0-9._-", n)
	addr := vp.StringOf("addr", "0-9a-z.", n)
	vp.Assume(name != "" && addr != "")
	svc := &api.CatalogService{ServiceName: name, ServiceAddress: addr, ServicePort: 8080, ServiceTags: []string{"urlprefix-foo.com/x"}}
	cmds := routecmd{svc: svc, prefix: "urlprefix-"}.build()
	vp.Assert(len(cmds) == 1, "one-command")
	vpCheckCmds(cmds, name, "foo.com/x", addr+":8080")
}

func vpItoa(n int) string {
	if n == 0 {
		return "0"
	}
	s := ""
	for n > 0 {
		s = string(rune('0'+n%10)) + s
		n /= 10
	}
	return s
}
