//go:build verif

package consul

import (
	"strings"

	"github.com/fabiolb/fabio/internal/vp"
	"github.com/hashicorp/consul/api"
)

// vpCheck builds one health check: node and service id are drawn from two symbolic names each,
// the check kind from the four kinds Consul produces, the status from the Consul statuses.
func vpCheck(nodes, ids [2]string, first bool) *api.HealthCheck {
	c := &api.HealthCheck{ServiceName: "web"}
	c.Node = nodes[0]
	id := ids[0]
	kind := 0
	if !first {
		// without loss of generality the first check is a service check of instance (nodeA, idA):
		// the property is about the instances that have a service check, and names are symbolic
		if vp.Bool("node2") {
			c.Node = nodes[1]
		}
		if vp.Bool("id2") {
			id = ids[1]
		}
		kind = vp.Choice("kind", 4)
	}
	switch kind {
	case 0: // service check
		c.CheckID = "service:" + id
		c.ServiceID = id
		switch vp.Choice("status", 3) {
		case 0:
			c.Status = "passing"
		case 1:
			c.Status = "warning"
		default:
			c.Status = "critical"
		}
		if vp.Bool("tagged") {
			c.ServiceTags = []string{"urlprefix-/x"}
		} else {
			c.ServiceTags = []string{"other"}
		}
	case 1: // agent health
		c.CheckID = "serfHealth"
		c.Status = "passing"
		if vp.Bool("agent-down") {
			c.Status = "critical"
		}
	case 2:
		c.CheckID = "_node_maintenance"
		c.Status = "critical"
	default:
		c.CheckID = "_service_maintenance:" + id
		c.ServiceID = id
		c.Status = "critical"
	}
	return c
}

// VPH_C01_passing: the checks returned are exactly the tagged service checks of healthy instances.
func VPH_C01_passing() {
	nodes := [2]string{vp.String("nodeA"), vp.String("nodeB")}
	ids := [2]string{"web-1", "web-10"} // one id is a prefix of the other
	vp.Assume(nodes[0] != nodes[1])
	n := vp.Param("N")
	strict := vp.Bool("strict")
	accepted := []string{"passing"}
	warn := vp.Bool("warning-accepted")
	if warn {
		accepted = []string{"passing", "warning"}
	}
	shard := 0
	if strict {
		shard++
	}
	if warn {
		shard += 2
	}
	var checks api.HealthChecks
	for i := 0; i < n; i++ {
		c := vpCheck(nodes, ids, i == 0)
		checks = append(checks, c)
		if ns := vp.Param("NSHARDS"); ns > 1 && i == 1 {
			// 16 shards: strict x warning x kind of the second check
			switch {
			case c.CheckID == "serfHealth":
				shard += 4
			case c.CheckID == "_node_maintenance":
				shard += 8
			case strings.HasPrefix(c.CheckID, "_service_maintenance:"):
				shard += 12
			}
			vp.Assume(shard%ns == vp.Param("SHARD"))
		}
	}
	got := passingServices(checksWithTagPrefix("urlprefix-", checks), accepted, strict)

	isSvc := func(c *api.HealthCheck) bool { return strings.HasPrefix(c.CheckID, "service:") }
	tagged := func(c *api.HealthCheck) bool { return len(c.ServiceTags) == 1 && c.ServiceTags[0] == "urlprefix-/x" }
	ok := func(c *api.HealthCheck) bool {
		return c.Status == "passing" || (len(accepted) == 2 && c.Status == "warning")
	}
	healthy := func(node, id string) bool {
		total, passing := 0, 0
		for _, c := range checks {
			if c.Node != node {
				continue
			}
			if c.CheckID == "serfHealth" && c.Status == "critical" {
				return false
			}
			if c.CheckID == "_node_maintenance" {
				return false
			}
			if c.CheckID == "_service_maintenance:"+id {
				return false
			}
			if isSvc(c) && tagged(c) && c.ServiceID == id {
				total++
				if ok(c) {
					passing++
				}
			}
		}
		return passing > 0 && (!strict || passing == total)
	}
	// soundness: everything returned belongs to a healthy, tagged instance
	for _, g := range got {
		vp.Cover("returned")
		vp.Assert(isSvc(g) && tagged(g), "returned-check-is-a-tagged-service-check")
		vp.Assert(healthy(g.Node, g.ServiceID), "returned-instance-is-healthy")
	}
	// completeness: every tagged service check of a healthy instance is returned
	for _, c := range checks {
		if isSvc(c) && tagged(c) && healthy(c.Node, c.ServiceID) {
			found := false
			for _, g := range got {
				if g == c {
					found = true
				}
			}
			vp.Cover("healthy")
			vp.Assert(found, "healthy-instance-is-returned")
		}
	}
}
