//go:build verif

package route

import (
	"net/http"
	"github.com/fabiolb/fabio/internal/vp"
)

// VPH_C06_globcache: for every configured size >= 1 and every sequence of K lookups over more
// patterns than fit, the host-pattern cache never fails a lookup, never panics, stays within
// its size and always holds the most recently added pattern.
func VPH_C06_globcache() {
	size := vp.IntRange("size", 1, 3)
	c := NewGlobCache(size)
	pats := []string{"*.a.com", "b.com", "*.c.org", "d.net", "e.*"}
	k := vp.Param("K")
	last := ""
	for i := 0; i < k; i++ {
		ch := vp.Choice("pattern", len(pats))
		p := ""
		for j := range pats { // one path per pattern
			if ch == j {
				p = pats[j]
			}
		}
		g, err := c.Get(p)
		vp.Assert(err == nil && g != nil, "lookup-never-fails")
		last = p
		cached := 0
		for _, q := range pats {
			if _, ok := c.m.Load(q); ok {
				cached++
			}
		}
		vp.Assert(cached <= size, "cache-within-configured-size")
		vp.Assert(c.n <= len(c.l) && c.h >= 0 && c.h < len(c.l), "ring-indices-in-range")
		_, ok := c.m.Load(last)
		vp.Assert(ok, "latest-pattern-cached")
		if cached == size {
			vp.Cover("full")
		}
	}
}

// VPH_C06_redirect_isolated: building the redirect location for one request must not depend on
// the location built for another request on the same target (sequential composition A, B, A).
func VPH_C06_redirect_isolated() {
	t := &Target{URL: vpRedirectTemplate(1, "redir.example", "p", "q"), RedirectCode: 302}
	a := vpReqURL("a")
	b := vpReqURL("b")
	t.BuildRedirectURL(a)
	la := *t.RedirectURL
	t.BuildRedirectURL(b)
	t.BuildRedirectURL(a)
	vp.Assert(t.RedirectURL.Path == la.Path && t.RedirectURL.Host == la.Host && t.RedirectURL.RawQuery == la.RawQuery, "location-depends-only-on-this-request")
}

// VPH_C06_redirect_interleaved: two requests hit the same redirect route; request B's lookup runs
// between A's lookup and A's response (a legal interleaving at function granularity). The
// location A answers with must still be A's.
func VPH_C06_redirect_interleaved() {
	// every documented template form is request dependent: $path after a slash, glued to the
	// host, and $host
	dst := "https://redir.example/$path"
	switch vp.Choice("template", 3) {
	case 1:
		dst = "https://redir.example$path"
		vp.Cover("path-glued-to-host")
	case 2:
		dst = "https://$host/fixed"
		vp.Cover("host-template")
	}
	defs := []RouteDef{{Cmd: RouteAddCmd, Service: "svc", Src: "/", Dst: dst, Opts: map[string]string{"redirect": "302"}}}
	tbl, err := NewTableCustom(&defs)
	vp.Assert(err == nil, "table-builds")
	a, b := vpReqURL("a"), vpReqURL("b")
	pick := func(r *Route) *Target { return r.wTargets[0] }
	ra := &http.Request{Host: "a.example", URL: a, Header: http.Header{}}
	rb := &http.Request{Host: "b.example", URL: b, Header: http.Header{}}
	ta := tbl.Lookup(ra, "", pick, prefixMatcher, NewGlobCache(4), false)
	vp.Assert(ta != nil && ta.RedirectURL != nil, "redirect-target-found")
	tb := tbl.Lookup(rb, "", pick, prefixMatcher, NewGlobCache(4), false)
	vp.Assert(tb != nil && tb.RedirectURL != nil, "redirect-target-found-b")
	// A now writes its response
	if dst == "https://$host/fixed" {
		vp.Assert(ta.RedirectURL.Host == "a.example", "location-of-a-names-the-host-of-request-a")
		vp.Assert(tb.RedirectURL.Host == "b.example", "location-of-b-names-the-host-of-request-b")
		return
	}
	vp.Assert(ta.RedirectURL.Path == a.Path, "location-of-a-is-built-from-request-a")
	vp.Assert(tb.RedirectURL.Path == b.Path, "location-of-b-is-built-from-request-b")
	vp.Assert(ta.RedirectURL.RawQuery == a.RawQuery, "query-of-a")
}
