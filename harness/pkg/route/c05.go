//go:build verif

package route

import (
	"bytes"
	"strings"

	"github.com/fabiolb/fabio/internal/vp"
)

type vpEntry struct {
	host, path, svc, dst string
	w                    float64
	tags                 []string
}

func vpSameTags(a, b []string) bool {
	if (a == nil) != (b == nil) || len(a) != len(b) {
		return false
	}
	for i := range a {
		if a[i] != b[i] {
			return false
		}
	}
	return true
}

func vpHasTags(have, want []string) bool {
	for _, w := range want {
		ok := false
		for _, h := range have {
			if h == w {
				ok = true
			}
		}
		if !ok {
			return false
		}
	}
	return true
}

// documented prefix syntax: host/path, host, /path
func vpHostPath(src string) (string, string) {
	i := strings.Index(src, "/")
	if i < 0 {
		return strings.ToLower(src), "/"
	}
	return strings.ToLower(src[:i]), src[i:]
}

var vpDsts = []string{"http://a.internal:8080/", "http://b.internal:9090/"}

var vpHosts = []string{"", "foo.com", "Foo.com", "bar.com", "FOO.COM", "*.foo.com"}
var vpPaths = []string{"/A", "/a", "/", "/a/b"}

// vpDef: service and tag are unconstrained symbolic strings (only compared for equality by the
// code); the source prefix is host+path drawn from a set with letter-case variants.
func vpDef(i int, cmd Cmd) *RouteDef {
	rich := vp.Param("RICH") == 1
	d := &RouteDef{Cmd: cmd, Service: vp.String("svc")}
	h := vp.Choice("host", vp.Param("HOSTS"))
	for k := range vpHosts { // one path per concrete host
		if h == k {
			d.Src = vpHosts[k]
		}
	}
	if rich || i >= 2 {
		p := vp.Choice("path", vp.Param("PATHS"))
		for k := range vpPaths {
			if p == k {
				d.Src += vpPaths[k]
			}
		}
	} else {
		d.Src += vpPaths[0]
	}
	d.Dst = vpDsts[0]
	if (rich && i > 1 || i == 3) && vp.Bool("second-dst") {
		d.Dst = vpDsts[1]
	}
	if (rich && i > 1 || i == 3) && vp.Bool("weighted") {
		d.Weight = 0.25
	}
	if rich || i >= 2 {
		// none, one or two tags (selectors with several tags must match targets carrying all of them)
		switch vp.Choice("tags", 3) {
		case 1:
			d.Tags = []string{vp.String("tag")}
		case 2:
			d.Tags = []string{vp.String("tag"), vp.String("tag")}
		}
	}
	return d
}

// reference semantics of the command language on a flat target list
func vpApply(list []vpEntry, d *RouteDef) ([]vpEntry, bool) {
	host, path := vpHostPath(d.Src)
	switch d.Cmd {
	case RouteAddCmd:
		e := vpEntry{host, path, d.Service, d.Dst, d.Weight, d.Tags}
		for _, x := range list {
			if x.host == e.host && x.path == e.path && x.svc == e.svc && x.dst == e.dst && x.w == e.w && vpSameTags(x.tags, e.tags) {
				return list, true
			}
		}
		return append(list, e), true
	case RouteDelCmd:
		var out []vpEntry
		for _, x := range list {
			var del bool
			switch {
			case len(d.Tags) > 0:
				del = (d.Service == "" || x.svc == d.Service) && vpHasTags(x.tags, d.Tags)
			case d.Src == "" && d.Dst == "":
				del = x.svc == d.Service
			case d.Dst == "":
				del = x.host == host && x.path == path && x.svc == d.Service
			default:
				del = x.host == host && x.path == path && x.svc == d.Service && x.dst == d.Dst
			}
			if !del {
				out = append(out, x)
			}
		}
		return out, true
	default: // weight
		n := 0
		for _, x := range list {
			if x.host == host && x.path == path && (d.Service == "" || x.svc == d.Service) && vpHasTags(x.tags, d.Tags) {
				n++
			}
		}
		if n == 0 {
			return list, false
		}
		out := append([]vpEntry(nil), list...)
		for i, x := range out {
			if x.host == host && x.path == path && (d.Service == "" || x.svc == d.Service) && vpHasTags(x.tags, d.Tags) {
				out[i].w = d.Weight / float64(n)
			}
		}
		return out, true
	}
}

// VPH_C05_script: two adds followed by an arbitrary third command give exactly the table the
// command semantics prescribe (hosts case-insensitive, no empty routes or hosts).
func VPH_C05_script() {
	vp.CutAt("slots := make(byN, len(r.Targets))")
	d1, d2 := vpDef(1, RouteAddCmd), vpDef(2, RouteAddCmd)
	vp.Assume(d1.Src != "" && d2.Src != "")
	kind := vp.Choice("third", 3)
	// sharding: each instance explores one residue class of (first host, third command kind)
	if n := vp.Param("NSHARDS"); n > 1 {
		h1 := 0
		for k := range vpHosts {
			if d1.Src == vpHosts[k]+"/" || d1.Src == vpHosts[k]+"/a" || d1.Src == vpHosts[k]+"/A" || d1.Src == vpHosts[k]+"/a/b" {
				h1 = k
			}
		}
		vp.Assume((h1*3+kind)%n == vp.Param("SHARD"))
	}
	cmd := RouteAddCmd
	switch kind {
	case 1:
		cmd = RouteDelCmd
		vp.Cover("del")
	case 2:
		cmd = RouteWeightCmd
		vp.Cover("weight")
	default:
		vp.Cover("add")
	}
	d3 := vpDef(3, cmd)
	if cmd == RouteDelCmd && vp.Bool("no-dst") {
		d3.Dst = ""
	}
	if cmd != RouteDelCmd {
		vp.Assume(d3.Src != "")
	}
	if cmd == RouteWeightCmd {
		d3.Weight = 0.5
		d3.Dst = ""
	}
	defs := []RouteDef{*d1, *d2, *d3}
	t, err := NewTableCustom(&defs)

	var ref []vpEntry
	ok := true
	for i := range defs {
		if ok {
			ref, ok = vpApply(ref, &defs[i])
		}
	}
	if !ok {
		vp.Cover("weight-no-match")
		vp.Assert(err != nil && t == nil, "weight-without-match-is-an-error")
		return
	}
	vp.Assert(err == nil, "well-formed-script-accepted")
	if err != nil {
		return
	}
	total := 0
	for h, routes := range t {
		vp.Assert(len(routes) > 0, "no-host-without-routes")
		vp.Assert(h == strings.ToLower(h), "host-keys-lower-case")
		for _, r := range routes {
			vp.Assert(len(r.Targets) > 0, "no-route-without-targets")
			vp.Assert(r.Host == h, "route-filed-under-its-host")
			total += len(r.Targets)
		}
	}
	vp.Assert(total == len(ref), "number-of-targets")
	for _, e := range ref {
		r := t.route(e.host, e.path)
		vp.Assert(r != nil, "route-exists")
		if r == nil {
			return
		}
		found := false
		for _, tg := range r.Targets {
			if tg.Service == e.svc && tg.URL.String() == e.dst && tg.FixedWeight == e.w && vpSameTags(tg.Tags, e.tags) {
				found = true
			}
		}
		vp.Assert(found, "target-present-with-service-dst-weight-tags")
	}
}

func vpC05Chars(label, set string, max int) string {
	n := vp.Choice(label+"-len", max+1)
	for i := 0; i < max; i++ {
		if n == i {
			return vp.Chars(label, set, i)
		}
	}
	return vp.Chars(label, set, max)
}

func vpC05Pick(label string, n int) int {
	c := vp.Choice(label, n)
	for i := 0; i < n-1; i++ {
		if c == i {
			return i
		}
	}
	return n - 1
}

// VPH_C05_roundtrip: the text rendering of a table (Table.String) is accepted by the parser and
// rebuilds the same route, target, tags, options and fixed weight. The table is built from one
// route add with an arbitrary service name, arbitrary tag and option text and a weight drawn from
// boundary values; host in two letter cases.
func VPH_C05_roundtrip() { vpC05Roundtrip(vp.Param("SVC"), vp.Param("TAGS"), 0) }

// VPH_C05_roundtrip_opts: the same with an arbitrary option string.
func VPH_C05_roundtrip_opts() { vpC05Roundtrip(0, 0, vp.Param("OPTS")) }

func vpC05Roundtrip(nsvc, ntags, nopts int) {
	vp.CutAt("slots := make(byN, len(r.Targets))")
	svc := "s" + vpC05Chars("svc", "a-zA-Z0-9._-", nsvc)
	tags, opts := "a,b", "strip=/x"
	if ntags > 0 {
		tags = vpC05Chars("tags", "a-z ,\\=:/", ntags)
	}
	if nopts > 0 {
		opts = vpC05Chars("opts", "a-z =/:", nopts)
	}
	// well-formed: no empty tag in the list
	for _, tg := range strings.Split(tags, ",") {
		vp.Assume(tags == "" || strings.TrimSpace(tg) != "")
	}
	host := []string{"foo.com", "Foo.COM", "", ":80"}[vpC05Pick("host", 4)]
	path := []string{"/", "/A/b"}[vpC05Pick("path", 2)]
	if host == ":80" {
		path = ""
	}
	wi := vpC05Pick("weight", 5)
	w := []string{"", "0.5", "1", "0.00004", "0.12345"}[wi]
	if n := vp.Param("NSHARDS"); n > 1 {
		vp.Assume(wi%n == vp.Param("SHARD"))
	}
	text := "route add " + svc + " " + host + path + " http://a.b:8080/x"
	if w != "" {
		text += " weight " + w
	}
	if tags != "" {
		text += " tags \"" + tags + "\""
	}
	if opts != "" {
		text += " opts \"" + opts + "\""
	}
	t1, err := NewTable(bytes.NewBufferString(text))
	vp.Assert(err == nil && t1 != nil, "well-formed-command-accepted")
	if err != nil || t1 == nil {
		return
	}
	rendered := t1.String()
	t2, err := NewTable(bytes.NewBufferString(rendered))
	vp.Assert(err == nil && t2 != nil, "rendering-accepted-by-the-parser")
	if err != nil || t2 == nil {
		return
	}
	vp.Cover("round-trip")
	vp.Assert(len(t1) == len(t2), "same-hosts")
	for h, rs1 := range t1 {
		rs2 := t2[h]
		vp.Assert(len(rs1) == len(rs2), "same-routes")
		if len(rs1) != len(rs2) {
			return
		}
		for i := range rs1 {
			r1, r2 := rs1[i], rs2[i]
			vp.Assert(r1.Host == r2.Host && r1.Path == r2.Path, "same-route")
			vp.Assert(len(r1.Targets) == len(r2.Targets), "same-targets")
			if len(r1.Targets) != len(r2.Targets) {
				return
			}
			for j := range r1.Targets {
				a, b := r1.Targets[j], r2.Targets[j]
				vp.Assert(a.Service == b.Service, "same-service")
				vp.Assert(a.URL.String() == b.URL.String(), "same-destination")
				vp.Assert(len(a.Tags) == len(b.Tags), "same-tags")
				if len(a.Tags) == len(b.Tags) {
					for k := range a.Tags {
						vp.Assert(a.Tags[k] == b.Tags[k], "same-tags")
					}
				}
				vp.Assert(len(a.Opts) == len(b.Opts), "same-options")
				for k, v := range a.Opts {
					v2, ok := b.Opts[k]
					vp.Assert(ok && v == v2, "same-options")
				}
				d := a.FixedWeight - b.FixedWeight
				vp.Assert(d < 0.0001 && d > -0.0001, "same-weight-to-four-decimals")
			}
		}
	}
}
