//go:build verif

package route

import (
	"github.com/fabiolb/fabio/internal/vp"
)

func vpTargets(n int, weights []float64) []*Target {
	var ts []*Target
	for i := 0; i < n; i++ {
		ts = append(ts, &Target{Service: "svc", URL: vpURL(), FixedWeight: weights[i]})
	}
	return ts
}

// VPH_C04_weights: effective weights for every combination of fixed (finite, >= 0) and dynamic
// targets: non-negative, sum to one, fixed honoured / scaled, remainder shared equally.
// (exact real arithmetic; float rounding is outside the claim)
func VPH_C04_weights() {
	n := vp.Param("N")
	ws := make([]float64, n)
	for i := range ws {
		ws[i] = vp.Float64("w")
		vp.Assume(ws[i] == 0 || (ws[i] >= 1e-9 && ws[i] <= 1000))
	}
	r := &Route{Host: "h", Path: "/", Targets: vpTargets(n, ws)}
	vp.CutBefore("sort.Sort")
	r.weighTargets()

	nFixed, sumFixed := 0, 0.0
	for _, w := range ws {
		if w > 0 {
			nFixed++
			sumFixed += w
		}
	}
	sum := 0.0
	for _, t := range r.Targets {
		vp.Assert(t.Weight >= 0, "weight-non-negative")
		sum += t.Weight
	}
	vp.Assert(sum == 1, "weights-sum-to-one")
	nDyn := n - nFixed
	for i, t := range r.Targets {
		switch {
		case nFixed == 0:
			vp.Cover("all-dynamic")
			vp.Assert(t.Weight*float64(n) == 1, "equal-share")
		case ws[i] > 0 && sumFixed <= 1 && nDyn > 0:
			vp.Cover("fixed-honoured")
			vp.Assert(t.Weight == ws[i], "fixed-weight-honoured-as-given")
		case ws[i] > 0:
			// all fixed, or more than 100%: proportional scaling
			vp.Cover("fixed-scaled")
			vp.Assert(t.Weight*sumFixed == ws[i], "fixed-weight-scaled-proportionally")
		default:
			vp.Cover("dynamic-remainder")
			if sumFixed >= 1 {
				vp.Assert(t.Weight == 0, "no-remainder-left")
			} else {
				vp.Assert(t.Weight*float64(nDyn) == 1-sumFixed, "remainder-shared-equally")
			}
		}
	}
	// slot counts: at least one slot for every positive weight, none for zero weight
	for _, t := range r.Targets {
		s := int(float64(maxSlots) * t.Weight)
		if s == 0 && t.Weight > 0 {
			s = 1
		}
		vp.Assert((s >= 1) == (t.Weight > 0), "slot-iff-positive-weight")
		vp.Assert(s <= maxSlots, "slots-bounded")
	}
}

// VPH_C04_setweight: 'route weight' assigns weight/n to exactly the targets that match the
// service and carry ALL tags of the selector.
func VPH_C04_setweight() {
	svcs := []string{vp.String("svc0"), vp.String("svc1"), vp.String("svc2")}
	tags := [][]string{{vp.String("tag0a"), vp.String("tag0b")}, {vp.String("tag1")}, nil}
	old := []float64{0.1, 0.2, 0}
	r := &Route{Host: "h", Path: "/"}
	for i := range svcs {
		r.Targets = append(r.Targets, &Target{Service: svcs[i], Tags: tags[i], URL: vpURL(), FixedWeight: old[i]})
	}
	svc := vp.String("service")
	var sel []string
	switch vp.Choice("selector-tags", 3) {
	case 1:
		sel = []string{vp.String("sel0")}
	case 2:
		sel = []string{vp.String("sel0"), vp.String("sel1")}
		vp.Cover("two-tag-selector")
	}
	w := vp.Float64("weight")
	vp.Assume(w == 0 || (w >= 1e-6 && w <= 1)) // weights outside [1e-9, 1e9] are treated as dynamic (C02)
	vp.CutBefore("sort.Sort")
	got := r.setWeight(svc, w, sel)
	hasAll := func(have []string) bool {
		for _, s := range sel {
			ok := false
			for _, h := range have {
				if h == s {
					ok = true
				}
			}
			if !ok {
				return false
			}
		}
		return true
	}
	matches := 0
	for i := range svcs {
		if (svc == "" || svcs[i] == svc) && hasAll(tags[i]) {
			matches++
		}
	}
	vp.Assert(got == matches, "returns-number-of-matching-targets")
	for i, t := range r.Targets {
		if (svc == "" || svcs[i] == svc) && hasAll(tags[i]) {
			vp.Cover("matched")
			vp.Assert(t.FixedWeight*float64(matches) == w, "matching-target-gets-weight-over-n")
		} else {
			vp.Cover("unmatched")
			vp.Assert(t.FixedWeight == old[i], "other-targets-unchanged")
		}
	}
}

// VPH_C04_rr: after any number cur < 2^63 of lookups, the next two round-robin picks are
// ring[cur mod len] and ring[(cur+1) mod len] (the cursor state after cur lookups is cur in the
// cursor field's own integer type).
func VPH_C04_rr() {
	n := vp.IntRange("ringlen", 1, 12)
	ts := make([]*Target, 12)
	for i := range ts {
		ts[i] = &Target{Service: "t"}
	}
	r := &Route{wTargets: ts[:n]}
	cur := vp.Uint64("cursor")
	vp.Assume(cur < 1<<63)
	vpSetCursor(&r.total, cur) // the cursor after `cur` lookups, whatever integer type holds it
	got := rrPicker(r)
	vp.Assert(got == r.wTargets[cur%uint64(n)], "picks-ring-at-cursor-mod-len")
	vp.Assert(vpCursor(&r.total) == vpCursor2(&r.total, cur+1), "cursor-advances-by-one")
	got2 := rrPicker(r) // the next lookup continues the cycle: no slot repeated or skipped at any count
	vp.Assert(got2 == r.wTargets[(cur+1)%uint64(n)], "next-pick-is-next-ring-slot")
}

// vpSetCursor / vpCursor write and read the round-robin cursor independent of the integer
// type the field is declared with, so a change of that type is judged, not a build error.
func vpSetCursor[T ~uint32 | ~uint64 | ~uint | ~int32 | ~int64 | ~int](p *T, v uint64) { *p = T(v) }
func vpCursor[T ~uint32 | ~uint64 | ~uint | ~int32 | ~int64 | ~int](p *T) uint64 { return uint64(*p) }

// vpCursor2 is v as the cursor's own type represents it (p only fixes the type).
func vpCursor2[T ~uint32 | ~uint64 | ~uint | ~int32 | ~int64 | ~int](p *T, v uint64) uint64 {
	return uint64(T(v))
}

// VPH_C04_ring: for concrete weight vectors the real ring holds exactly slots[i] entries per
// target, no nil entry, zero-weight targets absent (ring filling executed concretely).
func VPH_C04_ring() {
	vectors := [][]float64{{0.5, 0.5, 0}, {0.1, 0, 0}, {0.0003, 0.0002, 0}, {0.7, 0.7, 0.1}, {0.25, 0.25, 0.5}, {1, 0, 0},
		{0.99995, 0, 0}, {0.9999, 0.00005, 0}, {0.99999, 0.000005, 0}} // remainders / weights below one slot
	ws := vectors[vp.Choice("vector", len(vectors))]
	for k := range vectors { // one path per vector
		if ws[0] == vectors[k][0] && ws[1] == vectors[k][1] && ws[2] == vectors[k][2] {
			ws = vectors[k]
			break
		}
	}
	r := &Route{Host: "h", Path: "/", Targets: vpTargets(3, ws)}
	r.weighTargets()
	vp.Assert(len(r.wTargets) > 0, "ring-non-empty")
	cnt := map[*Target]int{}
	for _, t := range r.wTargets {
		vp.Assert(t != nil, "no-empty-slot")
		cnt[t]++
	}
	total := 0
	for _, t := range r.Targets {
		s := int(float64(maxSlots) * t.Weight)
		if s == 0 && t.Weight > 0 {
			s = 1
		}
		vp.Assert(cnt[t] == s, "target-occupies-its-slots")
		total += s
	}
	vp.Assert(total == len(r.wTargets), "ring-size-is-sum-of-slots")
}
