//go:build verif

package route

import (
	"crypto/tls"
	"net"
	"net/http"
	"net/url"
	"strings"

	"github.com/fabiolb/fabio/auth"
	"github.com/fabiolb/fabio/internal/vp"
)

func vpURL() *url.URL { return &url.URL{Scheme: "http", Host: "127.0.0.1:8080", Path: "/"} }

// vpAddTargetOpts adds one target with the given options through the real addTarget.
func vpAddTargetOpts(r *Route, opts map[string]string) {
	r.addTarget("svc", vpURL(), 0, nil, opts)
}

func vpIP4(label string) net.IP {
	return net.IP{vp.Uint8(label), vp.Uint8(label), vp.Uint8(label), vp.Uint8(label)}
}

func vpU32(ip net.IP) uint32 {
	return uint32(ip[0])<<24 | uint32(ip[1])<<16 | uint32(ip[2])<<8 | uint32(ip[3])
}

// reference: peer inside block <=> the first `ones` bits agree
func vpInside(peer, netw net.IP, ones int) bool {
	if ones == 0 {
		return true
	}
	sh := uint(32 - ones)
	return vpU32(peer)>>sh == vpU32(netw)>>sh
}

// VPH_C12_denyByIP: allow list admits exactly the addresses inside one of its blocks, deny
// list rejects exactly the addresses inside one of its blocks (IPv4, two blocks, all prefix lengths).
func VPH_C12_denyByIP() {
	allow := vp.Bool("allowlist")
	peer := vpIP4("peer")
	n1, n2 := vpIP4("net1"), vpIP4("net2")
	o1, o2 := vp.IntRange("ones1", 0, 32), 8
	for k := 0; k <= 32; k++ { // one path per prefix length
		if o1 == k {
			o1 = k
			break
		}
	}
	if vp.Bool("second-block-is-host") {
		o2 = 32
	}
	b1 := &net.IPNet{IP: n1, Mask: net.CIDRMask(o1, 32)}
	b2 := &net.IPNet{IP: n2, Mask: net.CIDRMask(o2, 32)}
	tag := ipDenyTag
	if allow {
		tag = ipAllowTag
	}
	t := &Target{URL: vpURL(), accessRules: map[string][]interface{}{tag: {b1, b2}}}
	if vp.Bool("peer-as-16-bytes") {
		peer = peer.To16()
	}
	denied := t.denyByIP(peer)
	inside := vpInside(peer.To4(), n1, o1) || vpInside(peer.To4(), n2, o2)
	if allow {
		vp.Cover("allow-list")
		vp.Assert(denied == !inside, "allow-list-admits-exactly-inside")
	} else {
		vp.Cover("deny-list")
		vp.Assert(denied == inside, "deny-list-rejects-exactly-inside")
	}
}

// VPH_C12_rules_failclosed: whatever the allow/deny option strings are, a rule that cannot be
// parsed never widens access: with a non-empty allow option every admitted peer lies in a
// successfully parsed block.
func VPH_C12_rules_failclosed() {
	allow, deny := vp.String("allow"), vp.String("deny")
	opts := map[string]string{}
	if allow != "" {
		opts["allow"] = allow
	}
	if deny != "" {
		opts["deny"] = deny
	}
	vp.Assume(allow != "" || deny != "")
	if vp.Param("ITEMS") == 1 {
		vp.Assume(!strings.Contains(allow, ",") && !strings.Contains(deny, ","))
	}
	if n := vp.Param("NSHARDS"); n > 1 {
		k := 0
		if allow != "" {
			k++
		}
		if strings.Contains(allow, ",") || strings.Contains(deny, ",") {
			k += 2
		}
		vp.Assume(k%n == vp.Param("SHARD"))
	}
	r := &Route{Host: "h", Path: "/"}
	vpAddTargetOpts(r, opts)
	vp.Assert(len(r.Targets) == 1, "target-added")
	t := r.Targets[0]
	peer := vpIP4("peer")
	denied := t.denyByIP(peer)
	if allow != "" {
		vp.Cover("allow-option")
		if !denied {
			blocks := t.accessRules[ipAllowTag]
			found := false
			for _, b := range blocks {
				if n, ok := b.(*net.IPNet); ok && n.Contains(peer) {
					found = true
				}
			}
			vp.Assert(found, "admitted-peer-is-inside-a-parsed-allow-block")
		}
	}
	if deny != "" && allow == "" {
		vp.Cover("deny-option")
		// every successfully parsed deny block is enforced
		for _, b := range t.accessRules[ipDenyTag] {
			if n, ok := b.(*net.IPNet); ok && n.Contains(peer) {
				vp.Assert(denied, "parsed-deny-block-enforced")
			}
		}
	}
}

// VPH_C12_http: an HTTP request is admitted by an allow list only if its peer address parses
// and lies inside the list (every RemoteAddr string, no X-Forwarded-For).
func VPH_C12_http() {
	t := &Target{URL: vpURL(), Opts: map[string]string{"allow": "ip:10.0.0.0/8"}}
	vp.Assert(t.ProcessAccessRules() == nil, "rule-parses")
	remote := vp.String("remote")
	req := &http.Request{RemoteAddr: remote, Header: http.Header{}}
	denied := t.AccessDeniedHTTP(req)
	if denied {
		vp.Cover("denied")
		return
	}
	vp.Cover("admitted")
	host, _, err := net.SplitHostPort(remote)
	vp.Assert(err == nil, "admitted-peer-address-is-host-port")
	if err != nil {
		return
	}
	if i := strings.IndexByte(host, '%'); i >= 0 {
		host = host[:i] // zone
	}
	ip := net.ParseIP(host)
	vp.Assert(ip != nil, "admitted-peer-address-parses")
	if ip == nil {
		return
	}
	ip4 := ip.To4()
	vp.Assert(ip4 != nil && ip4[0] == 10, "admitted-peer-inside-allow-block")
}

// VPH_C12_http_xff: with an admitted peer, every parseable X-Forwarded-For element must lie
// inside the allow list as well (chains of up to two elements; the first element may repeat
// the peer address, which fabio skips).
func VPH_C12_http_xff() {
	t := &Target{URL: vpURL(), Opts: map[string]string{"allow": "ip:10.0.0.0/8"}}
	vp.Assert(t.ProcessAccessRules() == nil, "rule-parses")
	x2 := vp.String("xff2")
	vp.Assume(!strings.Contains(x2, ","))
	var elems []string
	switch vp.Choice("first", 7) {
	case 4:
		elems = []string{"unknown", x2} // an element that is no address does not end the validation
		vp.Cover("after-unparsable")
	case 5:
		elems = []string{" ", x2}
	case 6:
		elems = []string{"10.9.9.9:53", x2}
	case 0:
		elems = []string{"10.1.2.3", x2} // repeats the peer
		vp.Cover("peer-repeated")
	case 1:
		elems = []string{" 10.9.9.9", x2}
	case 2:
		elems = []string{x2, "10.1.2.3"}
	default:
		elems = []string{x2}
	}
	xff := strings.Join(elems, ",")
	req := &http.Request{RemoteAddr: "10.1.2.3:4711", Header: http.Header{"X-Forwarded-For": {xff}}}
	denied := t.AccessDeniedHTTP(req)
	x := strings.TrimSpace(x2)
	if xip := net.ParseIP(x); xip != nil {
		x4 := xip.To4()
		if x4 == nil || x4[0] != 10 {
			vp.Cover("xff-outside")
			vp.Assert(denied, "xff-element-outside-allow-list-is-denied")
		}
	}
	if !denied {
		vp.Cover("admitted")
	}
}

type vpConn struct {
	net.Conn
	addr net.Addr
}

func (c vpConn) RemoteAddr() net.Addr { return c.addr }

// VPH_C12_tcp: a TCP connection is admitted by an allow list only if its peer lies inside.
func VPH_C12_tcp() {
	t := &Target{URL: vpURL(), Opts: map[string]string{"allow": "ip:10.0.0.0/8"}}
	vp.Assert(t.ProcessAccessRules() == nil, "rule-parses")
	peer := vpIP4("peer")
	denied := t.AccessDeniedTCP(vpConn{addr: &net.TCPAddr{IP: peer, Port: 1234}})
	vp.Assert(denied == (peer[0] != 10), "tcp-allow-list")
}

// VPH_C12_auth: unknown scheme rejects everything, empty scheme admits, known scheme decides.
type vpAuth struct{ ok bool }

func (a vpAuth) Authorized(r *http.Request, w http.ResponseWriter) bool { return a.ok }

func VPH_C12_auth() {
	name := vp.String("scheme")
	verdict := vp.Bool("verdict")
	t := &Target{AuthScheme: name}
	schemes := map[string]auth.AuthScheme{"known": vpAuth{verdict}}
	got := t.Authorized(&http.Request{}, nil, schemes)
	switch name {
	case "":
		vp.Assert(got, "no-scheme-admits")
	case "known":
		vp.Cover("known-scheme")
		vp.Assert(got == verdict, "scheme-decides")
	default:
		vp.Cover("unknown-scheme")
		vp.Assert(!got, "unknown-scheme-rejects")
	}
}

func vpTLSState() *tls.ConnectionState { return &tls.ConnectionState{} }

// ---------- concrete rule texts, every peer ----------

func vpPick(label string, n int) int {
	c := vp.Choice(label, n)
	for i := 0; i < n-1; i++ {
		if c == i {
			return i
		}
	}
	return n - 1
}

func vpIP16(label string) net.IP {
	ip := make(net.IP, 16)
	for i := range ip {
		ip[i] = vp.Uint8(label)
	}
	return ip
}

func vpPeer() net.IP {
	if vp.Bool("peer-is-v6") {
		return vpIP16("peer")
	}
	return vpIP4("peer")
}

// vpStrictBlocks: the rule list as a strict reader understands it (nil, false if any item is unusable).
func vpStrictBlocks(list string) ([]*net.IPNet, bool) {
	var blocks []*net.IPNet
	for _, item := range strings.Split(list, ",") {
		i := strings.Index(item, ":")
		if i < 0 || strings.ToLower(strings.TrimSpace(item[:i])) != "ip" {
			return nil, false
		}
		v := strings.TrimSpace(item[i+1:])
		if strings.Contains(v, "/") {
			_, n, err := net.ParseCIDR(v)
			if err != nil {
				return nil, false
			}
			blocks = append(blocks, n)
			continue
		}
		ip := net.ParseIP(v)
		if ip == nil {
			return nil, false
		}
		if ip4 := ip.To4(); ip4 != nil {
			blocks = append(blocks, &net.IPNet{IP: ip4, Mask: net.CIDRMask(32, 32)})
		} else {
			blocks = append(blocks, &net.IPNet{IP: ip, Mask: net.CIDRMask(128, 128)})
		}
	}
	return blocks, true
}

var vpRuleTexts = []string{
	"ip:10.0.0.0/8",
	"ip:192.168.1.7",
	" IP : 172.16.0.0/12 ",
	"ip:2001:db8:1:2:a1b2:c3ff:fed4:e5f6", // all groups written out
	"ip:2001:DB8::/32",
	"ip:fe80::1",
	"ip:::ffff:10.1.2.3",
	"ip:::/0",
	"ip:10.0.0.0/33",  // unusable: mask
	"ip:10.0.0.256",   // unusable: address
	"dns:example.com", // unusable: type
	"10.0.0.0/8",      // unusable: no type
	"",                // unusable: empty item
}

// VPH_C12_rulelist: allow or deny lists of one or two items drawn from valid and unusable
// spellings (IPv4, IPv6 with and without "::", mapped addresses, blanks, bad masks, other types),
// against EVERY IPv4 and IPv6 peer: a list with an unusable item admits nobody; a usable list
// admits / rejects exactly the peers inside its blocks.
func VPH_C12_rulelist() {
	n := len(vpRuleTexts)
	i1 := vpPick("item1", n)
	list := vpRuleTexts[i1]
	if vp.Bool("two-items") {
		list += "," + vpRuleTexts[vpPick("item2", n)]
	}
	vp.Assume(list != "")
	if ns := vp.Param("NSHARDS"); ns > 1 {
		vp.Assume(i1%ns == vp.Param("SHARD"))
	}
	isAllow := vp.Bool("allow-option")
	opts := map[string]string{"deny": list}
	if isAllow {
		opts = map[string]string{"allow": list}
	}
	r := &Route{Host: "h", Path: "/"}
	vpAddTargetOpts(r, opts)
	vp.Assert(len(r.Targets) == 1, "target-added")
	t := r.Targets[0]
	peer := vpPeer()
	denied := t.denyByIP(peer)
	blocks, usable := vpStrictBlocks(list)
	if !usable {
		vp.Cover("unusable-list")
		vp.Assert(denied, "unusable-rule-list-admits-nobody")
		return
	}
	inside := false
	for _, b := range blocks {
		if b.Contains(peer) {
			inside = true
		}
	}
	if isAllow {
		vp.Cover("allow-list")
		vp.Assert(denied == !inside, "allow-list-admits-exactly-its-blocks")
	} else {
		vp.Cover("deny-list")
		vp.Assert(denied == inside, "deny-list-rejects-exactly-its-blocks")
	}
}
