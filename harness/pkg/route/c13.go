//go:build verif

package route

import (
	"net/url"
	"strings"

	"github.com/fabiolb/fabio/internal/vp"
)

// vpRedirectTemplate returns the parsed form url.Parse gives for the documented redirect
// target shapes, with a symbolic literal host h (no '$', '/', '?').
//
//	0: https://h/            1: https://h/$path      2: https://h$path
//	3: https://$host$path    4: https://h/pre/$path  5: https://h/$path?q   6: https://$host/$path
func vpRedirectTemplate(shape int, h, pre, q string) *url.URL {
	switch shape {
	case 0:
		return &url.URL{Scheme: "https", Host: h, Path: "/"}
	case 1:
		return &url.URL{Scheme: "https", Host: h, Path: "/$path"}
	case 2:
		return &url.URL{Scheme: "https", Host: h + "$path"}
	case 3:
		return &url.URL{Scheme: "https", Host: "$host$path"}
	case 4:
		return &url.URL{Scheme: "https", Host: h, Path: "/" + pre + "/$path"}
	case 5:
		return &url.URL{Scheme: "https", Host: h, Path: "/$path", RawQuery: q}
	default:
		return &url.URL{Scheme: "https", Host: "$host", Path: "/$path"}
	}
}

// VPH_C13_redirect: the Location built for a request is the template with $path := prepend +
// strip(request path) (decoded and escaped forms), $host := request host, and the request's
// query when the template has none.
func VPH_C13_redirect() {
	shape := vp.Choice("shape", 7)
	h, pre, q := vp.String("tmplhost"), vp.String("tmplprefix"), vp.String("tmplquery")
	vp.Assume(!strings.Contains(h, "$") && h != "")
	vp.Assume(!strings.Contains(pre, "$") && !strings.Contains(pre, "/") && pre != "")
	vp.Assume(q != "")
	t := &Target{URL: vpRedirectTemplate(shape, h, pre, q), StripPath: vp.String("strip"), PrependPath: vp.String("prepend"), RedirectCode: 301}
	vp.Assume(!strings.Contains(t.PrependPath, "$"))
	req := &url.URL{Path: vp.String("path"), RawPath: vp.String("rawpath"), RawQuery: vp.String("query"), Host: vp.String("host")}
	vp.Assume(strings.HasPrefix(req.Path, "/") && !strings.Contains(req.Path, "$"))
	vp.Assume(req.RawPath == "" || (strings.HasPrefix(req.RawPath, "/") && !strings.Contains(req.RawPath, "$")))
	vp.Assume(!strings.Contains(req.Host, "$"))

	t.BuildRedirectURL(req)
	got := t.RedirectURL
	vp.Assert(got != nil, "location-built")

	// reference
	rp, rr := req.Path, req.RawPath
	if rr == "" {
		rr = rp
	}
	if t.StripPath != "" {
		if strings.HasPrefix(rp, t.StripPath) {
			rp = rp[len(t.StripPath):]
		}
		if strings.HasPrefix(rr, t.StripPath) {
			rr = rr[len(t.StripPath):]
		}
	}
	rp, rr = t.PrependPath+rp, t.PrependPath+rr
	wantHost, wantPath, wantRaw, wantQuery := h, "/", "/", ""
	switch shape {
	case 0:
		vp.Cover("fixed-target")
	case 1, 2:
		vp.Cover("path-template")
		wantPath, wantRaw, wantQuery = rp, rr, req.RawQuery
	case 3:
		vp.Cover("host-path-template")
		wantHost, wantPath, wantRaw, wantQuery = req.Host, rp, rr, req.RawQuery
	case 4:
		wantPath, wantRaw, wantQuery = "/"+pre+rp, "/"+pre+rr, req.RawQuery
	case 5:
		wantPath, wantRaw, wantQuery = rp, rr, q
	default:
		wantHost, wantPath, wantRaw, wantQuery = req.Host, rp, rr, req.RawQuery
	}
	if wantPath == "" {
		wantPath = "/"
	}
	vp.Assert(got.Scheme == "https", "scheme-from-target")
	vp.Assert(got.Host == wantHost, "host")
	vp.Assert(got.Path == wantPath, "path-is-request-path-after-strip-prepend")
	vp.Assert(got.RawQuery == wantQuery, "query-inherited-only-when-target-has-none")
	if shape != 0 && req.RawPath != "" && (t.StripPath == "" || (strings.HasPrefix(req.Path, t.StripPath) && strings.HasPrefix(req.RawPath, t.StripPath))) {
		// the client sent a non-default percent-encoding (net/http sets RawPath only then):
		// the Location must carry it, otherwise e.g. %2F is decoded to '/'
		// (with strip= the prefix is removed from both forms when both carry it)
		vp.Cover("client-encoding")
		if t.StripPath != "" {
			vp.Cover("client-encoding-under-strip")
		}
		vp.Assert(got.RawPath == wantRaw, "escaped-path-kept")
	}
}

func vpReqURL(label string) *url.URL {
	p := vp.String(label + "-path")
	vp.Assume(strings.HasPrefix(p, "/") && !strings.Contains(p, "$"))
	q := vp.String(label + "-query")
	return &url.URL{Path: p, RawQuery: q, Host: "h"}
}
