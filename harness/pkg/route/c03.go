//go:build verif

package route

import (
	"net/http"
	"net/url"
	"strings"

	"github.com/fabiolb/fabio/internal/vp"
)

type vpRouteSpec struct{ host, path, svc string }

// a table with exact, wildcard (two depths) and host-less routes, several paths per host
var vpTableSpec = []vpRouteSpec{
	{"foo.com", "/", "foo-root"}, {"foo.com", "/a", "foo-a"}, {"foo.com", "/a/b", "foo-ab"},
	{"*.foo.com", "/", "wild-root"}, {"*.foo.com", "/a", "wild-a"},
	{"*.a.foo.com", "/", "deep-root"},
	{"z.foo.com", "/a", "z-a"}, // exact host without a catch-all path: other candidates must still be tried
	{"*.foo.com:80", "/", "wild80-root"}, // a table key with a default port is no more specific than one without
	{"", "/", "any-root"}, {"", "/a", "any-a"}, {"", "/FOOBAR", "any-FOOBAR"}, {"", "/foo", "any-foo"},
}

func vpBuildTable() Table {
	var defs []RouteDef
	for i, s := range vpTableSpec {
		defs = append(defs, RouteDef{Cmd: RouteAddCmd, Service: s.svc, Src: s.host + s.path, Dst: "http://" + []string{"a", "b", "c", "d", "e", "f", "g", "h", "i", "j", "k", "l"}[i] + ":80/"})
	}
	t, err := NewTableCustom(&defs)
	vp.Assert(err == nil && t != nil, "table-builds")
	return t
}

// best path match on one host of the table ("" if none)
func vpBestPath(host, p string, fold bool) string {
	best, bestLen := "", -1
	for _, s := range vpTableSpec {
		sp := s.path
		if fold {
			sp = strings.ToLower(sp)
		}
		if s.host == host && strings.HasPrefix(p, sp) && len(sp) > bestLen {
			best, bestLen = s.svc, len(sp)
		}
	}
	return best
}

// reference: the acceptable results, most specific class of hosts first; hosts of one class are
// equally specific (a default port on a table key adds no specificity)
func vpRefLookup(host string, tls bool, path string, fold, globs bool) []string {
	h := host
	if !tls && strings.HasSuffix(h, ":80") {
		h = h[:len(h)-3]
	}
	if tls && strings.HasSuffix(h, ":443") {
		h = h[:len(h)-4]
	}
	h = strings.ToLower(h)
	p := path
	if fold {
		p = strings.ToLower(p)
	}
	var classes [][]string
	if h == "foo.com" {
		classes = append(classes, []string{"foo.com"})
	}
	if h == "z.foo.com" {
		classes = append(classes, []string{"z.foo.com"})
	}
	if globs && strings.HasSuffix(h, ".a.foo.com") {
		classes = append(classes, []string{"*.a.foo.com"})
	}
	var shallow []string
	if globs && strings.HasSuffix(h, ".foo.com") {
		shallow = append(shallow, "*.foo.com")
	}
	// the key "*.foo.com:80" loses its default port for plain requests
	if globs && ((!tls && strings.HasSuffix(h, ".foo.com")) || (tls && strings.HasSuffix(h, ".foo.com:80"))) {
		shallow = append(shallow, "*.foo.com:80")
	}
	if len(shallow) > 0 {
		classes = append(classes, shallow)
	}
	classes = append(classes, []string{""})
	for _, cl := range classes {
		var ok []string
		for _, c := range cl {
			if b := vpBestPath(c, p, fold); b != "" {
				ok = append(ok, b)
			}
		}
		if len(ok) > 0 {
			return ok
		}
	}
	return nil
}

func vpCharsUpTo(label, set string, max int) string {
	n := vp.Choice(label+"-len", max+1)
	for i := 0; i < max; i++ {
		if n == i {
			return vp.Chars(label, set, i)
		}
	}
	return vp.Chars(label, set, max)
}

func vpLookup(matcherName string, globDisabled bool) {
	t := vpBuildTable()
	var host, path string
	if vp.Param("CV") == 1 {
		// character vectors: concrete length, symbolic characters (engine/cv.go)
		host = vpCharsUpTo("host", "a-zA-Z0-9.:-", vp.Param("HOSTLEN"))
		path = "/" + vpCharsUpTo("path", "a-zA-Z0-9/._-", vp.Param("PATHLEN"))
	} else {
		host = vp.StringOf("host", "a-zA-Z0-9.:-", vp.Param("HOSTLEN"))
		path = "/" + vp.StringOf("path", "a-zA-Z0-9/._-", vp.Param("PATHLEN"))
	}
	isTLS := vp.Bool("tls")
	req := &http.Request{Host: host, URL: &url.URL{Path: path}, Header: http.Header{}}
	if isTLS {
		req.TLS = vpTLSState()
	}
	pick := func(r *Route) *Target { return r.wTargets[0] }
	got := t.Lookup(req, "", pick, Matcher[matcherName], NewGlobCache(16), globDisabled)
	// with host globbing disabled only literal host keys are candidates
	want := vpRefLookup(host, isTLS, path, matcherName == "iprefix", !globDisabled)
	if len(want) == 0 {
		vp.Assert(got == nil, "no-candidate-no-route")
		return
	}
	vp.Cover("routed")
	vp.Assert(got != nil, "a-candidate-exists-so-the-request-is-routed")
	if got == nil {
		return
	}
	if strings.HasPrefix(want[0], "deep") || strings.HasPrefix(want[0], "wild") {
		vp.Cover("wildcard-host")
	}
	match := false
	for _, w := range want {
		if got.Service == w {
			match = true
		}
	}
	vp.Assert(match, "most-specific-route-wins")
}

func VPH_C03_prefix()        { vpLookup("prefix", false) }
func VPH_C03_prefix_noglob() { vpLookup("prefix", true) }
func VPH_C03_iprefix()       { vpLookup("iprefix", false) }
