//go:build verif

package route

import (
	"net/http"
	"net/url"
	"strings"

	"github.com/fabiolb/fabio/internal/vp"
)

type vpRouteSpec struct{ host, path, svc string }

// a table with exact, wildcard (two depths) and host-less routes, several paths per host
var vpTableSpec = []vpRouteSpec{
	{"foo.com", "/", "foo-root"}, {"foo.com", "/a", "foo-a"}, {"foo.com", "/a/b", "foo-ab"},
	{"*.foo.com", "/", "wild-root"}, {"*.foo.com", "/a", "wild-a"},
	{"*.a.foo.com", "/", "deep-root"},
	{"z.foo.com", "/a", "z-a"}, // exact host without a catch-all path: other candidates must still be tried
	{"", "/", "any-root"}, {"", "/a", "any-a"}, {"", "/FOOBAR", "any-FOOBAR"}, {"", "/foo", "any-foo"},
}

func vpBuildTable() Table {
	var defs []RouteDef
	for i, s := range vpTableSpec {
		defs = append(defs, RouteDef{Cmd: RouteAddCmd, Service: s.svc, Src: s.host + s.path, Dst: "http://" + []string{"a", "b", "c", "d", "e", "f", "g", "h", "i", "j", "k"}[i] + ":80/"})
	}
	t, err := NewTableCustom(&defs)
	vp.Assert(err == nil && t != nil, "table-builds")
	return t
}

// reference: most specific matching route
func vpRefLookup(host string, tls bool, path string, fold, globs bool) string {
	h := host
	if !tls && strings.HasSuffix(h, ":80") {
		h = h[:len(h)-3]
	}
	if tls && strings.HasSuffix(h, ":443") {
		h = h[:len(h)-4]
	}
	h = strings.ToLower(h)
	// candidate hosts from most to least specific
	var cands []string
	if h == "foo.com" {
		cands = append(cands, "foo.com")
	}
	if h == "z.foo.com" {
		cands = append(cands, "z.foo.com")
	}
	if globs && strings.HasSuffix(h, ".a.foo.com") {
		cands = append(cands, "*.a.foo.com")
	}
	if globs && strings.HasSuffix(h, ".foo.com") {
		cands = append(cands, "*.foo.com")
	}
	cands = append(cands, "")
	p := path
	if fold {
		p = strings.ToLower(p)
	}
	for _, c := range cands {
		best, bestLen := "", -1
		for _, s := range vpTableSpec {
			sp := s.path
			if fold {
				sp = strings.ToLower(sp)
			}
			if s.host == c && strings.HasPrefix(p, sp) && len(sp) > bestLen {
				best, bestLen = s.svc, len(sp)
			}
		}
		if bestLen >= 0 {
			return best
		}
	}
	return ""
}

func vpLookup(matcherName string, globDisabled bool) {
	t := vpBuildTable()
	host := vp.StringOf("host", "a-zA-Z0-9.:-", vp.Param("HOSTLEN"))
	path := "/" + vp.StringOf("path", "a-zA-Z0-9/._-", vp.Param("PATHLEN"))
	isTLS := vp.Bool("tls")
	req := &http.Request{Host: host, URL: &url.URL{Path: path}, Header: http.Header{}}
	if isTLS {
		req.TLS = vpTLSState()
	}
	pick := func(r *Route) *Target { return r.wTargets[0] }
	got := t.Lookup(req, "", pick, Matcher[matcherName], NewGlobCache(16), globDisabled)
	// with host globbing disabled only literal host keys are candidates
	want := vpRefLookup(host, isTLS, path, matcherName == "iprefix", !globDisabled)
	if want == "" {
		vp.Assert(got == nil, "no-candidate-no-route")
		return
	}
	vp.Cover("routed")
	vp.Assert(got != nil, "a-candidate-exists-so-the-request-is-routed")
	if got == nil {
		return
	}
	if strings.HasPrefix(want, "deep") || strings.HasPrefix(want, "wild") {
		vp.Cover("wildcard-host")
	}
	vp.Assert(got.Service == want, "most-specific-route-wins")
}

func VPH_C03_prefix()        { vpLookup("prefix", false) }
func VPH_C03_prefix_noglob() { vpLookup("prefix", true) }
func VPH_C03_iprefix()       { vpLookup("iprefix", false) }
