//go:build verif

package route

import (
	"github.com/fabiolb/fabio/internal/vp"
)

// VPH_C02_weights_nocrash: whatever float64 weights (NaN, +-Inf, huge, denormal) route
// commands carry, building the weight distribution never panics and leaves a usable
// (non-empty) distribution.
func VPH_C02_weights_nocrash() {
	n := vp.Param("N")
	r := &Route{Host: "h", Path: "/"}
	vp.CutAt("for _, s := range slots {")
	for i := 0; i < n; i++ {
		u := *vpURL()
		u.Host = []string{"a:1", "b:1", "c:1", "d:1"}[i]
		r.addTarget("svc", &u, vp.Float64("w"), nil, nil)
	}
	vp.Assert(len(r.Targets) >= 1, "targets-added")
	any := false
	for _, t := range r.Targets {
		vp.Assert(t.Weight >= 0, "weight-is-a-non-negative-number")
		if t.Weight > 0 {
			any = true
		}
	}
	vp.Assert(any, "some-target-has-positive-weight")
	if vp.Bool("reweigh") {
		vp.Cover("route-weight-command")
		r.setWeight("svc", vp.Float64("rw"), nil)
		any = false
		for _, t := range r.Targets {
			vp.Assert(t.Weight >= 0, "weight-is-a-non-negative-number-after-route-weight")
			if t.Weight > 0 {
				any = true
			}
		}
		vp.Assert(any, "some-target-has-positive-weight-after-route-weight")
	}
}

// VPH_C02_settable: SetTable(nil) keeps the active table; SetTable(t) publishes t.
func VPH_C02_settable() {
	t1 := Table{"a": Routes{&Route{Host: "a", Path: "/"}}}
	SetTable(t1)
	vp.Assert(len(GetTable()) == 1, "published")
	SetTable(nil)
	got := GetTable()
	vp.Assert(got != nil && len(got) == 1 && got["a"] != nil, "nil-table-ignored-last-good-kept")
	t2 := Table{"b": Routes{&Route{Host: "b", Path: "/"}}, "c": nil}
	SetTable(t2)
	vp.Assert(len(GetTable()) == 2, "new-table-replaces-old-completely")
	vp.Assert(GetTable()["a"] == nil, "no-mixture-with-previous-table")
}
