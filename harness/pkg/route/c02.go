//go:build verif

package route

import (
	"bytes"
	"net/http"
	"net/url"

	"github.com/fabiolb/fabio/internal/vp"
)

// VPH_C02_weights_nocrash: whatever float64 weights (NaN, +-Inf, huge, denormal) route
// commands carry, building the weight distribution never panics and leaves a usable
// (non-empty) distribution.
func VPH_C02_weights_nocrash() {
	n := vp.Param("N")
	r := &Route{Host: "h", Path: "/"}
	vp.CutAt("for _, s := range slots {")
	for i := 0; i < n; i++ {
		u := *vpURL()
		u.Host = []string{"a:1", "b:1", "c:1", "d:1"}[i]
		r.addTarget("svc", &u, vp.Float64("w"), nil, nil)
	}
	vp.Assert(len(r.Targets) >= 1, "targets-added")
	any := false
	for _, t := range r.Targets {
		vp.Assert(t.Weight >= 0, "weight-is-a-non-negative-number")
		if t.Weight > 0 {
			any = true
		}
	}
	vp.Assert(any, "some-target-has-positive-weight")
	if vp.Bool("reweigh") {
		vp.Cover("route-weight-command")
		r.setWeight("svc", vp.Float64("rw"), nil)
		any = false
		for _, t := range r.Targets {
			vp.Assert(t.Weight >= 0, "weight-is-a-non-negative-number-after-route-weight")
			if t.Weight > 0 {
				any = true
			}
		}
		vp.Assert(any, "some-target-has-positive-weight-after-route-weight")
	}
}

// VPH_C02_settable: SetTable(nil) keeps the active table; SetTable(t) publishes t.
func VPH_C02_settable() {
	t1 := Table{"a": Routes{&Route{Host: "a", Path: "/"}}}
	SetTable(t1)
	vp.Assert(len(GetTable()) == 1, "published")
	SetTable(nil)
	got := GetTable()
	vp.Assert(got != nil && len(got) == 1 && got["a"] != nil, "nil-table-ignored-last-good-kept")
	t2 := Table{"b": Routes{&Route{Host: "b", Path: "/"}}, "c": nil}
	SetTable(t2)
	vp.Assert(len(GetTable()) == 2, "new-table-replaces-old-completely")
	vp.Assert(GetTable()["a"] == nil, "no-mixture-with-previous-table")
}

func vpC02Chars(label, set string, max int) string {
	n := vp.Choice(label+"-len", max+1)
	for i := 0; i < max; i++ {
		if n == i {
			return vp.Chars(label, set, i)
		}
	}
	return vp.Chars(label, set, max)
}

func vpC02Pick(label string, n int) int {
	c := vp.Choice(label, n)
	for i := 0; i < n-1; i++ {
		if c == i {
			return i
		}
	}
	return n - 1
}

// VPH_C02_text_nocrash: route configuration text with arbitrary source, destination and weight
// tokens (malformed globs and URLs, ports, wildcards, escapes) either yields a table or an error;
// it never panics, and a table that was accepted answers a lookup without panicking.
func VPH_C02_text_nocrash()       { vpC02Text(false) }
func VPH_C02_weighttext_nocrash() { vpC02Text(true) }

func vpC02Text(weightMode bool) {
	// the slot ring is filled only for usable weights (VPH_C02_weights_nocrash, C04): cut before it
	vp.CutAt("for _, s := range slots {")
	src, dst, w := "foo.com/", "http://a:1/", ""
	if weightMode {
		w = vpC02Chars("weight", "0-9.eEinfaN+-", vp.Param("W"))
	} else {
		src = vpC02Chars("src", "a-zA-Z.:/*[]{}\\?", vp.Param("SRC"))
		dst = vpC02Chars("dst", "a-z:/%[]#?", vp.Param("DST"))
	}
	tail := []string{"", " tags \"a,b\"", " opts \"strip=/x proto=https\"", " opts \"allow=ip:1.2.3.4/8\""}[vpC02Pick("tail", 4)]
	text := "route add svc " + src + " " + dst
	if w != "" {
		text += " weight " + w
	}
	text += tail
	switch vpC02Pick("second", 4) {
	case 1:
		text += "\nroute del svc"
	case 2:
		text += "\nroute weight svc " + src + " weight 0.5"
	case 3:
		text += "\nroute add svc2 " + src + " http://b:1/"
	}
	t, err := NewTable(bytes.NewBufferString(text))
	if err != nil {
		vp.Cover("rejected")
		vp.Assert(t == nil, "error-means-no-table")
		return
	}
	vp.Cover("accepted")
	vp.Assert(t != nil, "no-error-means-a-table")
	req := &http.Request{Host: "foo.com", URL: &url.URL{Path: "/x"}, Header: http.Header{}}
	pick := func(r *Route) *Target {
		if len(r.wTargets) == 0 {
			return nil
		}
		return r.wTargets[0]
	}
	t.Lookup(req, "", pick, Matcher["prefix"], NewGlobCache(4), vp.Bool("glob-disabled"))
	t.Lookup(req, "", pick, Matcher["glob"], NewGlobCache(4), false)
}
