//go:build verif

package route

import (
	"net"
	"net/url"
	"time"

	"github.com/fabiolb/fabio/config"
	"github.com/fabiolb/fabio/internal/vp"
	"github.com/fabiolb/fabio/transport"
)

// VPH_C19_route_transport: the per-route transport a host-override target gets (route.go,
// addTarget) is built from the configured limits too, and exists exactly when the route
// needs one (host set and not "dst", https by URL scheme or by proto option).
func VPH_C19_route_transport() {
	c := &config.Config{}
	c.Proxy.ResponseHeaderTimeout = time.Duration(vp.Int64("rht"))
	c.Proxy.IdleConnTimeout = time.Duration(vp.Int64("ict"))
	c.Proxy.MaxConn = vp.Int("maxconn")
	c.Proxy.DialTimeout = time.Duration(vp.Int64("dial"))
	c.Proxy.KeepAliveTimeout = time.Duration(vp.Int64("keepalive"))
	transport.SetConfig(c)

	host := []string{"", "dst", "up.example.com"}[vp.Choice("host", 3)]
	scheme := []string{"http", "https"}[vp.Choice("scheme", 2)]
	proto := []string{"", "https", "http"}[vp.Choice("proto", 3)]
	skip := vp.Bool("skipverify")
	opts := map[string]string{}
	if host != "" {
		opts["host"] = host
	}
	if proto != "" {
		opts["proto"] = proto
	}
	if skip {
		opts["tlsskipverify"] = "true"
	}
	r := &Route{Host: "h", Path: "/"}
	r.addTarget("svc", &url.URL{Scheme: scheme, Host: "10.0.0.1:443", Path: "/"}, 0, nil, opts)
	vp.Assert(len(r.Targets) == 1, "target-added")
	t := r.Targets[0]
	want := host == "up.example.com" && (scheme == "https" || proto == "https")
	vp.Assert((t.Transport != nil) == want, "per-route-transport-exactly-when-needed")
	if t.Transport == nil {
		return
	}
	tr := t.Transport
	vp.Cover("per-route-transport")
	vp.Assert(tr.ResponseHeaderTimeout == c.Proxy.ResponseHeaderTimeout, "route-response-header-timeout")
	vp.Assert(tr.IdleConnTimeout == c.Proxy.IdleConnTimeout, "route-idle-conn-timeout")
	vp.Assert(tr.MaxIdleConnsPerHost == c.Proxy.MaxConn, "route-max-idle-conns-per-host")
	vp.Assert(tr.TLSClientConfig != nil, "route-tls-config")
	if tr.TLSClientConfig != nil {
		vp.Assert(tr.TLSClientConfig.ServerName == host, "route-sni-is-host-override")
		vp.Assert(tr.TLSClientConfig.InsecureSkipVerify == skip, "route-skipverify-as-configured")
	}
	vp.Assert(tr.Dial != nil, "route-dialer-set")
	d := (*net.Dialer)(vp.BoundReceiver(tr.Dial))
	vp.Assert(d != nil, "route-dialer-is-net-dialer")
	if d != nil {
		vp.Assert(d.Timeout == c.Proxy.DialTimeout, "route-dial-timeout")
		vp.Assert(d.KeepAlive == c.Proxy.KeepAliveTimeout, "route-keep-alive")
	}
}
