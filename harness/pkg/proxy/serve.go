//go:build verif

package proxy

import (
	"context"
	"io"
	"net"
	"net/http"
	"net/url"
	"strings"
	"time"

	"github.com/fabiolb/fabio/auth"
	"github.com/fabiolb/fabio/config"
	"github.com/fabiolb/fabio/internal/vp"
	"github.com/fabiolb/fabio/route"
)

// ---- environment stubs (the harness' inputs and observers) ----

type vpRW struct {
	hdr    http.Header
	code   int
	body   []byte
	writes int
}

func (w *vpRW) Header() http.Header { return w.hdr }
func (w *vpRW) Write(b []byte) (int, error) {
	if w.code == 0 {
		w.code = 200
	}
	w.body = append(w.body, b...)
	w.writes++
	return len(b), nil
}
func (w *vpRW) WriteHeader(c int) {
	if w.code == 0 {
		w.code = c
	}
}

type vpNoBody struct{}

func (vpNoBody) Read([]byte) (int, error) { return 0, io.EOF }
func (vpNoBody) Close() error             { return nil }

type vpRT struct {
	req   *http.Request
	calls int
	resp  *http.Response
	err   error
}

func (t *vpRT) RoundTrip(r *http.Request) (*http.Response, error) {
	t.req = r
	t.calls++
	return t.resp, t.err
}

type vpNetErr struct{ timeout bool }

func (e vpNetErr) Error() string   { return "net error" }
func (e vpNetErr) Timeout() bool   { return e.timeout }
func (e vpNetErr) Temporary() bool { return false }

type vpScheme struct{ ok bool }

func (a vpScheme) Authorized(r *http.Request, w http.ResponseWriter) bool { return a.ok }

func vpProxy(t *route.Target, rt *vpRT, cfg config.Proxy) *HTTPProxy {
	return &HTTPProxy{
		Config:    cfg,
		Transport: rt,
		Lookup:    func(*http.Request) *route.Target { return t },
		Time:      func() time.Time { return time.Time{} },
		UUID:      func() string { return "uuid" },
	}
}

func vpRequest(method, host, path, query, remote string) *http.Request {
	return &http.Request{Method: method, Host: host, URL: &url.URL{Path: path, RawQuery: query}, RemoteAddr: remote,
		Proto: "HTTP/1.1", Header: http.Header{}}
}

// VPH_C07_passthrough: what the upstream receives for a routed plain HTTP request.
func VPH_C07_passthrough() {
	th, tq := vp.String("target-host"), vp.String("target-query")
	strip, prepend := vp.String("strip"), vp.String("prepend")
	t := &route.Target{Service: "svc", URL: &url.URL{Scheme: "http", Host: th, Path: "/", RawQuery: tq}, StripPath: strip, PrependPath: prepend}
	hostopt := vp.Choice("hostopt", 3)
	switch hostopt {
	case 1:
		t.Host = "dst"
	case 2:
		t.Host = "override.example"
	}
	method, host, path, query := vp.String("method"), vp.String("host"), vp.String("path"), vp.String("query")
	vp.Assume(strings.HasPrefix(path, "/"))
	r := vpRequest(method, host, path, query, "1.2.3.4:5555")
	custom := vp.String("custom")
	r.Header["X-Custom"] = []string{custom}
	r.Header["User-Agent"] = []string{"ua"}
	status := vp.IntRange("upstream-status", 100, 599)
	rt := &vpRT{resp: &http.Response{StatusCode: status, Header: http.Header{"X-Upstream": {"u"}}, Body: vpNoBody{}}}
	w := &vpRW{hdr: http.Header{}}
	vpProxy(t, rt, config.Proxy{}).ServeHTTP(w, r)

	vp.Assert(rt.calls == 1, "upstream-contacted-once")
	if rt.calls != 1 {
		return
	}
	out := rt.req
	vp.Assert(out.Method == method, "method-unchanged")
	vp.Assert(out.URL.Scheme == "http" && out.URL.Host == th, "upstream-is-the-target")
	// path: strip, then prepend, always absolute
	want := path
	if strip != "" && strings.HasPrefix(want, strip) {
		vp.Cover("stripped")
		want = want[len(strip):]
		if !strings.HasPrefix(want, "/") {
			want = "/" + want
		}
	}
	if prepend != "" {
		vp.Cover("prepended")
		want = prepend + want
		if !strings.HasPrefix(want, "/") {
			want = "/" + want
		}
	}
	vp.Assert(out.URL.Path == want, "path-rewritten-only-by-strip-and-prepend")
	vp.Assert(strings.HasPrefix(out.URL.Path, "/"), "path-absolute")
	// query: the route's own query in front
	wq := tq + query
	if tq != "" && query != "" {
		vp.Cover("queries-merged")
		wq = tq + "&" + query
	}
	vp.Assert(out.URL.RawQuery == wq, "query-merged-route-first")
	switch hostopt {
	case 0:
		vp.Assert(out.Host == host, "host-header-unchanged")
	case 1:
		vp.Assert(out.Host == th, "host-header-is-dst")
	default:
		vp.Assert(out.Host == "override.example", "host-header-override")
	}
	cv := out.Header["X-Custom"]
	vp.Assert(len(cv) == 1 && cv[0] == custom, "end-to-end-header-unchanged")
	// the upstream learns the host the client asked for, even when the route rewrites Host
	xfh := out.Header["X-Forwarded-Host"]
	if host != "" {
		vp.Assert(len(xfh) == 1 && xfh[0] == host, "x-forwarded-host-is-the-clients-host")
	}
	xff := out.Header["X-Forwarded-For"]
	vp.Assert(len(xff) == 1 && xff[0] == "1.2.3.4", "x-forwarded-for-ends-with-peer")
	// response
	vp.Assert(w.code == status, "status-passed-to-client")
	uh := w.hdr["X-Upstream"]
	vp.Assert(len(uh) == 1 && uh[0] == "u", "upstream-header-passed-to-client")
}

// VPH_C07_noroute: no route => configured status and page, no upstream.
func VPH_C07_noroute() {
	status := vp.Int("noroute-status")
	rt := &vpRT{}
	w := &vpRW{hdr: http.Header{}}
	p := vpProxy(nil, rt, config.Proxy{NoRouteStatus: status})
	p.ServeHTTP(w, vpRequest("GET", "h", "/", "", "1.2.3.4:5"))
	vp.Assert(rt.calls == 0, "no-upstream-contacted")
	if status >= 100 && status <= 999 {
		vp.Cover("configured-status")
		vp.Assert(w.code == status, "configured-noroute-status")
	} else {
		vp.Assert(w.code == 404, "default-404")
	}
	vp.Assert(len(w.body) == 0, "empty-page-when-none-configured")
}

// VPH_C07_gate: access rules, auth, redirect and upstream errors.
func VPH_C07_gate() {
	t := &route.Target{Service: "svc", URL: &url.URL{Scheme: "http", Host: "up:80", Path: "/"}, Opts: map[string]string{"allow": "ip:10.0.0.0/8"}}
	vp.Assert(t.ProcessAccessRules() == nil, "rules-parse")
	remote := "10.0.0.1:5"
	inside := vp.Bool("peer-inside")
	if !inside {
		remote = "8.8.8.8:5"
	}
	authmode := vp.Choice("auth", 3) // none, known, unknown
	verdict := vp.Bool("verdict")
	switch authmode {
	case 1:
		t.AuthScheme = "basic"
	case 2:
		t.AuthScheme = "nosuch"
	}
	redirect := vp.Bool("redirect")
	if redirect {
		t.RedirectCode = 302
		t.RedirectURL = &url.URL{Scheme: "https", Host: "elsewhere", Path: "/x"}
	}
	upstream := vp.Choice("upstream", 7) // ok, timeout, net error, EOF, canceled, *net.OpError timeout, *net.OpError other
	rt := &vpRT{resp: &http.Response{StatusCode: 200, Header: http.Header{}, Body: vpNoBody{}}}
	switch upstream {
	case 1:
		rt.resp, rt.err = nil, vpNetErr{timeout: true}
	case 2:
		rt.resp, rt.err = nil, vpNetErr{}
	case 3:
		rt.resp, rt.err = nil, io.EOF
	case 4:
		rt.resp, rt.err = nil, context.Canceled
	case 5:
		rt.resp, rt.err = nil, &net.OpError{Op: "dial", Net: "tcp", Err: vpNetErr{timeout: true}}
	case 6:
		rt.resp, rt.err = nil, &net.OpError{Op: "read", Net: "tcp", Err: vpNetErr{}}
	}
	w := &vpRW{hdr: http.Header{}}
	p := vpProxy(t, rt, config.Proxy{})
	p.AuthSchemes = map[string]auth.AuthScheme{"basic": vpScheme{verdict}}
	p.ServeHTTP(w, vpRequest("GET", "h", "/", "", remote))
	authOK := authmode == 0 || (authmode == 1 && verdict)
	switch {
	case !inside:
		vp.Cover("denied")
		vp.Assert(w.code == 403 && rt.calls == 0, "outside-peer-gets-403-no-upstream")
	case !authOK:
		vp.Cover("unauthorized")
		vp.Assert(w.code == 401 && rt.calls == 0, "failed-auth-gets-401-no-upstream")
	case redirect:
		vp.Cover("redirected")
		loc := w.hdr["Location"]
		vp.Assert(w.code == 302 && rt.calls == 0, "redirect-status-no-upstream")
		vp.Assert(len(loc) == 1 && loc[0] == "https://elsewhere/x", "redirect-location")
	default:
		vp.Assert(rt.calls == 1, "admitted-request-forwarded")
		switch upstream {
		case 0:
			vp.Assert(w.code == 200, "upstream-status")
		case 1, 5:
			// 1 is the shape of net/http's response-header timeout: a net.Error that is no *net.OpError
			vp.Cover("timeout")
			vp.Assert(w.code == 504, "timeout-is-504")
		case 2, 3, 6:
			vp.Assert(w.code == 502, "connection-error-is-502")
		default:
			vp.Assert(w.code == 499, "client-cancel-is-499")
		}
	}
}

// VPH_C07_responsewriter: the counting wrapper forwards every call unchanged.
func VPH_C07_responsewriter() {
	w := &vpRW{hdr: http.Header{}}
	rw := &responseWriter{w: w}
	code := vp.IntRange("code", 100, 599)
	b := vp.Bytes("body", 8)
	rw.WriteHeader(code)
	n, err := rw.Write(b)
	vp.Assert(err == nil && n == len(b), "write-result-forwarded")
	vp.Assert(w.code == code && rw.code == code, "status-forwarded-and-recorded")
	vp.Assert(len(w.body) == len(b), "body-length-forwarded")
	for i := range b {
		vp.Assert(w.body[i] == b[i], "body-bytes-unchanged")
	}
	vp.Assert(rw.size == len(b), "size-counted")
	vp.Assert(rw.Header() != nil, "header-map-shared")
}

// VPH_C07_escaped_path: the upstream receives the client's percent-encoding (RawPath) rewritten
// by strip and prepend exactly like the decoded path. The request carries an encoded slash or an
// encoded blank after an arbitrary prefix and before an arbitrary tail.
func VPH_C07_escaped_path() {
	pre, tail := vp.String("prefix"), vp.String("tail")
	vp.Assume(strings.HasPrefix(pre, "/") && !strings.Contains(pre, "%") && !strings.Contains(tail, "%"))
	dec, raw := "/a/b", "/a%2Fb"
	if vp.Bool("encoded-blank") {
		dec, raw = "/a b", "/a%20b"
	}
	path, rawpath := pre+dec+tail, pre+raw+tail
	strip, prepend := "", ""
	switch vp.Choice("strip", 3) {
	case 1:
		strip = pre // the route's prefix
		vp.Cover("strip-prefix")
	case 2:
		strip = vp.String("strip")
	}
	if vp.Bool("prepend") {
		prepend = vp.String("prepend-text")
		vp.Assume(!strings.Contains(prepend, "%"))
	}
	t := &route.Target{Service: "svc", URL: &url.URL{Scheme: "http", Host: "up:80", Path: "/"}, StripPath: strip, PrependPath: prepend}
	r := vpRequest("GET", "h", path, "", "1.2.3.4:5555")
	r.URL.RawPath = rawpath
	rt := &vpRT{resp: &http.Response{StatusCode: 200, Header: http.Header{}, Body: vpNoBody{}}}
	w := &vpRW{hdr: http.Header{}}
	vpProxy(t, rt, config.Proxy{}).ServeHTTP(w, r)
	vp.Assert(rt.calls == 1, "upstream-contacted-once")
	if rt.calls != 1 {
		return
	}
	out := rt.req.URL
	// reference: both forms rewritten alike; if the escaped form does not carry the strip prefix
	// the hint is dropped (the path is then re-encoded by net/url)
	wantPath, wantRaw := path, rawpath
	if strip != "" && strings.HasPrefix(wantPath, strip) {
		wantPath = wantPath[len(strip):]
		if !strings.HasPrefix(wantPath, "/") {
			wantPath = "/" + wantPath
		}
		if strings.HasPrefix(wantRaw, strip) {
			wantRaw = wantRaw[len(strip):]
			if !strings.HasPrefix(wantRaw, "/") {
				wantRaw = "/" + wantRaw
			}
		} else {
			wantRaw = ""
		}
	}
	if prepend != "" {
		wantPath = prepend + wantPath
		if !strings.HasPrefix(wantPath, "/") {
			wantPath = "/" + wantPath
		}
		if wantRaw != "" {
			wantRaw = prepend + wantRaw
			if !strings.HasPrefix(wantRaw, "/") {
				wantRaw = "/" + wantRaw
			}
		}
	}
	vp.Assert(out.Path == wantPath, "path-rewritten-only-by-strip-and-prepend")
	if wantRaw != "" {
		vp.Cover("encoding-kept")
		vp.Assert(out.RawPath == wantRaw, "client-percent-encoding-kept")
	}
	// (without a usable escaped form net/url re-encodes the decoded path: nothing is required of the hint)
}
