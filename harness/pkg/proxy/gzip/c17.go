//go:build verif

package gzip

import (
	"net/http"
	"regexp"
	"strings"

	"github.com/fabiolb/fabio/internal/vp"
)

type vpRW struct {
	hdr  http.Header
	code int
	body []byte
}

func (w *vpRW) Header() http.Header { return w.hdr }
func (w *vpRW) Write(b []byte) (int, error) {
	if w.code == 0 {
		w.code = 200
	}
	w.body = append(w.body, b...)
	return len(b), nil
}
func (w *vpRW) WriteHeader(c int) {
	if w.code == 0 {
		w.code = c
	}
}

var vpTypes = regexp.MustCompile(`^(text/.*|application/json)(;.*)?$`)

// VPH_C17_gzip: the response is compressed exactly when the client accepts gzip, the content
// type matches and it is not already encoded; the decompressed body equals what the handler
// wrote; otherwise body and headers pass unchanged; the status code is always preserved.
func VPH_C17_gzip() {
	accept, acceptEnc := vp.String("accept"), vp.String("accept-encoding")
	ctype := vp.String("content-type")
	vp.Assume(ctype != "")
	preEncoded := vp.Bool("already-encoded")
	hasLen := vp.Bool("content-length-set")
	explicit := vp.Bool("explicit-status")
	code := vp.IntRange("status", 200, 599)
	c1, c2 := vp.Bytes("chunk1", 3), vp.Bytes("chunk2", 3)
	nWrites := vp.Choice("writes", 3)
	vp.Assume(explicit || nWrites > 0)
	inner := http.HandlerFunc(func(w http.ResponseWriter, r *http.Request) {
		w.Header().Set("Content-Type", ctype)
		if preEncoded {
			w.Header().Set("Content-Encoding", "br")
		}
		if hasLen {
			w.Header().Set("Content-Length", "6")
		}
		if explicit {
			w.WriteHeader(code)
		}
		if nWrites >= 1 {
			n, err := w.Write(c1)
			vp.Assert(err == nil && n == len(c1), "write-result-reported")
		}
		if nWrites >= 2 {
			n, err := w.Write(c2)
			vp.Assert(err == nil && n == len(c2), "write-result-reported")
		}
	})
	r := &http.Request{Header: http.Header{}}
	if accept != "" {
		r.Header["Accept"] = []string{accept}
	}
	if acceptEnc != "" {
		r.Header["Accept-Encoding"] = []string{acceptEnc}
	}
	w := &vpRW{hdr: http.Header{}}
	NewGzipHandler(inner, vpTypes).ServeHTTP(w, r)

	var want []byte
	if nWrites >= 1 {
		want = append(want, c1...)
	}
	if nWrites >= 2 {
		want = append(want, c2...)
	}
	wantCode := 200
	if explicit {
		wantCode = code
	}
	vp.Assert(w.code == wantCode, "status-code-preserved")
	vary := w.hdr["Vary"]
	vp.Assert(len(vary) == 1 && vary[0] == "Accept-Encoding", "vary-added")
	accepts := strings.Contains(acceptEnc, "gzip") && !strings.Contains(accept, "text/event-stream")
	compress := accepts && !preEncoded && vpTypes.MatchString(ctype)
	ce := w.hdr["Content-Encoding"]
	if compress {
		vp.Cover("compressed")
		vp.Assert(len(ce) == 1 && ce[0] == "gzip", "labelled-content-encoding-gzip")
		_, hasCL := w.hdr["Content-Length"]
		vp.Assert(!hasCL, "no-stale-content-length")
		got := vp.Gunzip(w.body)
		vp.Assert(len(got) == len(want), "decompressed-length")
		for i := range want {
			vp.Assert(i < len(got) && got[i] == want[i], "decompresses-to-the-bytes-written")
		}
	} else {
		vp.Cover("passed-through")
		if preEncoded {
			vp.Assert(len(ce) == 1 && ce[0] == "br", "existing-encoding-kept")
		} else {
			vp.Assert(len(ce) == 0, "not-labelled-gzip")
		}
		cl, hasCL := w.hdr["Content-Length"]
		vp.Assert(hasCL == hasLen && (!hasLen || cl[0] == "6"), "content-length-untouched")
		vp.Assert(len(w.body) == len(want), "body-length-unchanged")
		for i := range want {
			vp.Assert(i < len(w.body) && w.body[i] == want[i], "body-bytes-unchanged")
		}
	}
}
