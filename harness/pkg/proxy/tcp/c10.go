//go:build verif

package tcp

import "github.com/fabiolb/fabio/internal/vp"

// ---- C10: SNI extraction ----

// VPH_C10_safety: no input of up to N bytes makes readServerName panic / read out of bounds.
func VPH_C10_safety() {
	n := vp.Param("N")
	data := vp.Bytes("hello", n)
	name, ok := readServerName(data)
	if ok {
		vp.Cover("accepted")
		vp.Assert(len(name) <= len(data), "name-within-input")
	} else {
		vp.Cover("rejected")
		vp.Assert(name == "", "rejected-empty-name")
	}
}

// VPH_C10_record: header check + handshake parse composed as SNIProxy.ServeTCP composes them.
func VPH_C10_record() {
	n := vp.Param("N")
	data := vp.Bytes("record", n)
	vp.Assume(len(data) >= 9)
	size, err := clientHelloBufferSize(data[:9])
	if err != nil {
		vp.Cover("header-rejected")
		vp.Assert(size == 0, "error-size-zero")
		return
	}
	vp.Cover("header-accepted")
	recLen := int(data[3])<<8 | int(data[4])
	hsLen := int(data[6])<<16 | int(data[7])<<8 | int(data[8])
	// never buffer more than the first TLS record
	vp.Assert(size <= 5+recLen, "buffer-within-first-record")
	vp.Assert(size == 9+hsLen, "buffer-is-handshake")
	vp.Assert(size >= 10, "buffer-min")
	vp.Assert(size <= 5+16384, "buffer-max")
	vp.Assume(len(data) >= size)
	name, ok := readServerName(data[5:size])
	if ok {
		vp.Cover("hello-accepted")
		vp.Assert(len(name) <= size, "name-within-input")
	}
}

// VPH_C10_diff: for every well-formed ClientHello (reference parser, RFC 8446 4.1.2 / RFC 6066 3)
// fabio accepts and extracts the same name.
func VPH_C10_diff() {
	n := vp.Param("N")
	data := vp.Bytes("hello", n)
	ref, wf := vpRefSNI(data)
	vp.Assume(wf)
	vp.Cover("well-formed")
	got, ok := readServerName(data)
	vp.Assert(ok, "well-formed-accepted")
	if !ok {
		return
	}
	if len(ref) > 0 {
		vp.Cover("has-sni")
	}
	vp.Assert(got == string(ref), "same-server-name")
}
// reference parser: RFC 8446 4.1.2 / RFC 6066 3, cryptobyte style, strict.
func vpRefSNI(d []byte) ([]byte, bool) {
	var none []byte
	if len(d) < 4 {
		return none, false
	}
	if d[0] != 1 {
		return none, false
	}
	n := int(d[1])<<16 | int(d[2])<<8 | int(d[3])
	if n != len(d)-4 {
		return none, false
	}
	p := 4
	if len(d)-p < 34 {
		return none, false
	}
	p += 34
	if len(d)-p < 1 {
		return none, false
	}
	sl := int(d[p])
	p++
	if sl > 32 {
		return none, false
	}
	if len(d)-p < sl {
		return none, false
	}
	p += sl
	if len(d)-p < 2 {
		return none, false
	}
	cl := int(d[p])<<8 | int(d[p+1])
	p += 2
	if cl < 2 {
		return none, false
	}
	if cl%2 == 1 {
		return none, false
	}
	if len(d)-p < cl {
		return none, false
	}
	p += cl
	if len(d)-p < 1 {
		return none, false
	}
	ml := int(d[p])
	p++
	if ml < 1 {
		return none, false
	}
	if len(d)-p < ml {
		return none, false
	}
	p += ml
	if p == len(d) {
		return none, true
	}
	if len(d)-p < 2 {
		return none, false
	}
	el := int(d[p])<<8 | int(d[p+1])
	p += 2
	if el != len(d)-p {
		return none, false
	}
	name := none
	seen := false
	for p < len(d) {
		if len(d)-p < 4 {
			return none, false
		}
		typ := int(d[p])<<8 | int(d[p+1])
		l := int(d[p+2])<<8 | int(d[p+3])
		p += 4
		if len(d)-p < l {
			return none, false
		}
		if typ == 0 {
			if seen {
				return none, false
			}
			seen = true
			q := p
			end := p + l
			if end-q < 2 {
				return none, false
			}
			ll := int(d[q])<<8 | int(d[q+1])
			q += 2
			if ll != end-q {
				return none, false
			}
			if ll == 0 {
				return none, false
			}
			has := false
			for q < end {
				if end-q < 3 {
					return none, false
				}
				nt := d[q]
				nl := int(d[q+1])<<8 | int(d[q+2])
				q += 3
				if nl == 0 {
					return none, false
				}
				if end-q < nl {
					return none, false
				}
				if nt == 0 {
					if has {
						return none, false
					}
					has = true
					name = d[q : q+nl]
				}
				q += nl
			}
		}
		p += l
	}
	return name, true
}

