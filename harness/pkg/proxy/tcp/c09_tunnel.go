//go:build verif

package tcp

import (
	"io"
	"net"
	"net/url"
	"time"

	"github.com/fabiolb/fabio/internal/vp"
	"github.com/fabiolb/fabio/route"
)

// vpClient is the client side of a tunnelled connection: it delivers a byte stream in the
// given segments (one per Read) and records what it is sent.
type vpClient struct {
	segs   [][]byte
	next   int
	got    []byte
	remote net.Addr
	closed bool
}

func (c *vpClient) Read(p []byte) (int, error) {
	if c.next >= len(c.segs) {
		return 0, io.EOF
	}
	s := c.segs[c.next]
	n := copy(p, s)
	if n < len(s) {
		c.segs[c.next] = s[n:]
	} else {
		c.next++
	}
	return n, nil
}
func (c *vpClient) Write(p []byte) (int, error) { c.got = append(c.got, p...); return len(p), nil }
func (c *vpClient) Close() error                  { c.closed = true; return nil }
func (c *vpClient) LocalAddr() net.Addr           { return &net.TCPAddr{IP: net.IP{127, 0, 0, 1}, Port: 443} }
func (c *vpClient) RemoteAddr() net.Addr          { return c.remote }
func (c *vpClient) SetDeadline(time.Time) error   { return nil }
func (c *vpClient) SetReadDeadline(time.Time) error  { return nil }
func (c *vpClient) SetWriteDeadline(time.Time) error { return nil }

// vpFixLen forks over the length of b so that every path works with a concrete length
func vpFixLen(b []byte, max int) []byte {
	for k := 0; k <= max; k++ {
		if len(b) == k {
			return b[:k]
		}
	}
	return b
}

// a minimal well-formed TLS 1.2 ClientHello record with server_name "example.com"
func vpHello() []byte {
	name := "example.com"
	sni := []byte{0, 0, 0, byte(len(name) + 5), 0, byte(len(name) + 3), 0, 0, byte(len(name))}
	sni = append(sni, name...)
	body := []byte{3, 3}
	body = append(body, make([]byte, 32)...) // random
	body = append(body, 0)                   // session id
	body = append(body, 0, 2, 0x13, 0x01)    // cipher suites
	body = append(body, 1, 0)                // compression
	body = append(body, 0, byte(len(sni)))
	body = append(body, sni...)
	hs := append([]byte{1, 0, 0, byte(len(body))}, body...)
	return append([]byte{0x16, 3, 1, 0, byte(len(hs))}, hs...)
}

func vpTarget(addr string, allow string) *route.Target {
	t := &route.Target{Service: "svc", URL: &url.URL{Scheme: "tcp", Host: addr}}
	if allow != "" {
		t.Opts = map[string]string{"allow": allow}
		vp.Assert(t.ProcessAccessRules() == nil, "rule-parses")
	}
	return t
}

// VPH_C09_sni_tunnel: on an SNI listener the upstream sees the client's stream from its very
// first byte — the ClientHello and anything sent together with it — however it is segmented.
func VPH_C09_sni_tunnel() {
	hello := vpHello()
	extra := vpFixLen(vp.Bytes("sent-with-the-hello", 3), 3)
	tail := vpFixLen(vp.Bytes("sent-later", 3), 3)
	var stream []byte
	stream = append(stream, hello...)
	stream = append(stream, extra...)
	// first segment: part of the hello, the hello alone, or the hello together with what follows it
	first := len(hello)
	switch vp.Choice("first-segment", 4) {
	case 1:
		first += len(extra)
		vp.Cover("data-in-hello-segment")
	case 2:
		first = 20 // the ClientHello itself arrives in two segments
		vp.Cover("hello-split")
	case 3:
		first = len(hello) - 3
	}
	c := &vpClient{segs: [][]byte{stream[:first], stream[first:], tail}, remote: &net.TCPAddr{IP: net.IP{10, 0, 0, 1}, Port: 5555}}
	addr := vp.UpstreamListen()
	var asked string
	p := &SNIProxy{Lookup: func(host string) *route.Target { asked = host; return vpTarget(addr, "") }}
	err := p.ServeTCP(c)
	vp.Assert(err == nil, "tunnel-ends-cleanly")
	vp.Assert(asked == "example.com", "routed-by-server-name")
	got := vp.UpstreamReceived()
	want := append(append([]byte(nil), stream...), tail...)
	vp.Assert(len(got) == len(want), "upstream-got-every-byte-once")
	for i := range want {
		vp.Assert(i < len(got) && got[i] == want[i], "upstream-stream-in-order-unmodified")
	}
}

// VPH_C09_tcp_tunnel: plain TCP listener: optional PROXY line, then the client's stream from its
// first byte; a peer rejected by the access rules never reaches an upstream.
func VPH_C09_tcp_tunnel() {
	s1, s2 := vpFixLen(vp.Bytes("segment1", 3), 3), vpFixLen(vp.Bytes("segment2", 3), 3)
	inside := vp.Bool("peer-inside-allow-list")
	peer := net.IP{10, 0, 0, 1}
	if !inside {
		peer = net.IP{8, 8, 8, 8}
	}
	c := &vpClient{segs: [][]byte{s1, s2}, remote: &net.TCPAddr{IP: peer, Port: 5555}}
	addr := vp.UpstreamListen()
	t := vpTarget(addr, "ip:10.0.0.0/8")
	t.ProxyProto = vp.Bool("proxy-protocol")
	p := &Proxy{Lookup: func(string) *route.Target { return t }}
	err := p.ServeTCP(c)
	vp.Assert(err == nil, "no-error")
	if !inside {
		vp.Cover("denied")
		vp.Assert(vp.UpstreamDials() == 0, "denied-peer-contacts-no-upstream")
		vp.Assert(c.closed, "denied-connection-closed")
		return
	}
	got := vp.UpstreamReceived()
	var want []byte
	if t.ProxyProto {
		vp.Cover("proxy-line")
		want = append(want, "PROXY TCP4 10.0.0.1 127.0.0.1 5555 443\r\n"...)
	}
	want = append(append(want, s1...), s2...)
	vp.Assert(len(got) == len(want), "upstream-got-every-byte-once")
	for i := range want {
		vp.Assert(i < len(got) && got[i] == want[i], "upstream-stream-in-order-unmodified")
	}
}
