//go:build verif

package tcp

import (
	"errors"
	"io"
	"net"
	"strings"

	"github.com/fabiolb/fabio/internal/vp"
)

var errVP = errors.New("io failure")

// vpSrc delivers a stream in symbolic segments obeying the io.Reader contract.
type vpSrc struct {
	calls, max int
	total      int
	failed     bool
}

func (s *vpSrc) Read(p []byte) (int, error) {
	s.calls++
	n := vp.IntRange("segment", 0, 4)
	for i := 0; i < n; i++ {
		p[i] = byte(s.total + i) // position-dependent content
	}
	s.total += n
	if s.calls >= s.max {
		return n, io.EOF
	}
	switch vp.Choice("read-outcome", 3) {
	case 1:
		return n, io.EOF
	case 2:
		s.failed = true
		return n, errVP
	}
	return n, nil
}

// vpDst records what is written; it may write short or fail (io.Writer contract).
type vpDst struct {
	got    []byte
	failed bool
	short  bool
}

func (d *vpDst) Write(p []byte) (int, error) {
	switch vp.Choice("write-outcome", 3) {
	case 1:
		d.failed = true
		k := vp.IntRange("partial", 0, len(p))
		d.got = append(d.got, p[:k]...)
		return k, errVP
	case 2:
		if len(p) > 0 {
			d.short = true
			d.got = append(d.got, p[:len(p)-1]...)
			return len(p) - 1, nil
		}
	}
	d.got = append(d.got, p...)
	return len(p), nil
}

// VPH_C09_copy: every byte read is written exactly once, in order and unmodified, however the
// stream is segmented; nil is returned only after everything read before EOF has been written.
func VPH_C09_copy() {
	src := &vpSrc{max: vp.Param("READS")}
	dst := &vpDst{}
	err := copyBuffer(dst, src, nil)
	if err == nil {
		vp.Cover("clean-eof")
		vp.Assert(!dst.failed && !dst.short && !src.failed, "nil-only-without-io-errors")
		vp.Assert(len(dst.got) == src.total, "everything-read-was-written")
	}
	vp.Assert(len(dst.got) <= src.total, "nothing-written-twice")
	for i := range dst.got {
		vp.Assert(dst.got[i] == byte(i), "bytes-in-order-and-unmodified")
	}
	if dst.failed {
		vp.Cover("write-error")
		vp.Assert(err == errVP, "write-error-returned")
	} else if dst.short {
		vp.Cover("short-write")
		vp.Assert(err == io.ErrShortWrite, "short-write-reported")
	} else if src.failed {
		vp.Assert(err == errVP, "read-error-returned")
	}
}

type vpAddr string

func (a vpAddr) Network() string { return "tcp" }
func (a vpAddr) String() string  { return string(a) }

type vpPConn struct {
	net.Conn
	remote, local net.Addr
	wrote         string
}

func (c *vpPConn) RemoteAddr() net.Addr { return c.remote }
func (c *vpPConn) LocalAddr() net.Addr  { return c.local }
func (c *vpPConn) Write(p []byte) (int, error) {
	c.wrote += string(p)
	return len(p), nil
}

// VPH_C09_proxyheader: the PROXY line names protocol family, source and destination address
// and ports of the client connection, terminated by CRLF.
func VPH_C09_proxyheader() {
	cip, sip := vp.StringOf("client-ip", "0-9.", 7), vp.StringOf("server-ip", "0-9.", 7)
	cport, sport := vp.StringOf("client-port", "0-9", 5), vp.StringOf("server-port", "0-9", 5)
	vp.Assume(cip != "" && sip != "" && cport != "" && sport != "")
	in := &vpPConn{remote: vpAddr(cip + ":" + cport), local: vpAddr(sip + ":" + sport)}
	out := &vpPConn{}
	err := WriteProxyHeader(out, in)
	vp.Assert(err == nil, "no-error")
	line := out.wrote
	fam := "TCP6"
	if ip := net.ParseIP(cip); ip != nil && ip.To4() != nil {
		fam = "TCP4"
		vp.Cover("ipv4")
	}
	vp.Assert(line == "PROXY "+fam+" "+cip+" "+sip+" "+cport+" "+sport+"\r\n", "proxy-line")
	vp.Assert(strings.HasSuffix(line, "\r\n"), "crlf")
}
