//go:build verif

package proxy

import "github.com/fabiolb/fabio/internal/vp"

const vpHex = "0123456789abcdef"

// VPH_C20_uint16base16: "0x" + four lower-case hex digits of n, for every uint16.
func VPH_C20_uint16base16() {
	n := vp.Uint16("n")
	s := uint16base16(n)
	vp.Assert(len(s) == 6, "length-6")
	vp.Assert(s[0] == '0' && s[1] == 'x', "0x-prefix")
	vp.Assert(s[2] == vpHex[n>>12], "digit-3")
	vp.Assert(s[3] == vpHex[(n>>8)&15], "digit-2")
	vp.Assert(s[4] == vpHex[(n>>4)&15], "digit-1")
	vp.Assert(s[5] == vpHex[n&15], "digit-0")
}

// VPH_C20_i32toa: decimal rendering of every int32.
func VPH_C20_i32toa() {
	n := vp.Int32("n")
	s := i32toa(n)
	k := 0
	if n < 0 {
		vp.Cover("negative")
		vp.Assert(len(s) > 1 && s[0] == '-', "sign-first")
		k = 1
	}
	digits := s[k:]
	vp.Assert(len(digits) >= 1, "at-least-one-digit")
	var v int64
	for i := 0; i < len(digits); i++ {
		d := digits[i]
		vp.Assert('0' <= d && d <= '9', "decimal-digit")
		v = v*10 + int64(d-'0')
	}
	abs := int64(n)
	if n < 0 {
		abs = -abs
	}
	vp.Assert(v == abs, "digits-denote-value")
	if len(digits) > 1 {
		vp.Assert(digits[0] != '0', "no-leading-zero")
	}
}
