//go:build verif

package proxy

import (
	"crypto/tls"
	"net/http"
	"strings"

	"github.com/fabiolb/fabio/config"
	"github.com/fabiolb/fabio/internal/vp"
)

// VPH_C08_headers: whatever the client sends (forged copies of the managed headers included),
// the forwarding headers describe the real connection.
func VPH_C08_headers() {
	ip := vp.String("peer-ip")
	vp.Assume(ip != "" && !strings.Contains(ip, ":") && !strings.Contains(ip, "[") && !strings.Contains(ip, "]"))
	host := vp.String("host")
	r := &http.Request{RemoteAddr: ip + ":4711", Host: host, Proto: "HTTP/1.1", Header: http.Header{}}
	// forged / pre-existing headers
	var realip, xff, xfproto, xfport, xfhost, fwd, clienthdr, tlshdr string
	rich := vp.Param("RICH") >= 1
	hasReal, hasXFF, hasClient, hasTLS := vp.Bool("has-x-real-ip"), vp.Bool("has-xff"), vp.Bool("has-client-ip-header"), vp.Bool("has-tls-header")
	hasProto, hasPort, hasHost, hasFwd := false, false, false, false
	cfgTLSHeader := vp.Bool("cfg-tls-header")
	if vp.Param("RICH") == 4 {
		// quick bound plus a forged Forwarded header
		rich = false
		hasFwd = vp.Bool("has-forwarded")
	}
	if rich {
		hasProto, hasPort, hasHost, hasFwd = vp.Bool("has-xf-proto"), vp.Bool("has-xf-port"), vp.Bool("has-xf-host"), vp.Bool("has-forwarded")
		if vp.Param("RICH") == 2 {
			// forged X-Forwarded-Port and X-Forwarded-Host come together or not at all
			vp.Assume(hasPort == hasHost)
		}
		if vp.Param("RICH") == 3 {
			// forged X-Forwarded-Proto and Forwarded in every combination, no forged port/host
			vp.Assume(!hasPort && !hasHost)
		}
	} else {
		vp.Assume(host != "")
		if cfgTLSHeader {
			// a forged X-Forwarded-Proto must not decide whether the TLS header is set
			hasProto = vp.Bool("has-xf-proto")
		}
	}
	if hasReal {
		realip = vp.String("x-real-ip")
		r.Header["X-Real-Ip"] = []string{realip}
	}
	if hasXFF {
		xff = vp.String("xff")
		r.Header["X-Forwarded-For"] = []string{xff}
	}
	if hasProto {
		xfproto = vp.String("xf-proto")
		r.Header["X-Forwarded-Proto"] = []string{xfproto}
	}
	if hasPort {
		xfport = vp.String("xf-port")
		r.Header["X-Forwarded-Port"] = []string{xfport}
	}
	if hasHost {
		xfhost = vp.String("xf-host")
		r.Header["X-Forwarded-Host"] = []string{xfhost}
	}
	if hasFwd {
		fwd = vp.String("forwarded")
		r.Header["Forwarded"] = []string{fwd}
	}
	if hasClient {
		clienthdr = vp.String("client-ip-header-value")
		r.Header["X-Client-Ip"] = []string{clienthdr}
	}
	if hasTLS {
		tlshdr = vp.String("tls-header-value")
		r.Header["X-Tls"] = []string{tlshdr}
	}
	ws := vp.Choice("upgrade", 3) // none, websocket, Websocket
	if n := vp.Param("NSHARDS"); n > 1 {
		k := 0
		if hasReal {
			k += 1
		}
		if hasXFF {
			k += 2
		}
		if hasTLS {
			k += 4
		}
		if hasProto {
			k += 8
		}
		vp.Assume(k%n == vp.Param("SHARD"))
	}
	switch ws {
	case 1:
		r.Header["Upgrade"] = []string{"websocket"}
	case 2:
		r.Header["Upgrade"] = []string{"Websocket"}
	}
	isTLS := vp.Bool("tls")
	if isTLS {
		r.TLS = &tls.ConnectionState{Version: tls.VersionTLS13, CipherSuite: tls.TLS_AES_128_GCM_SHA256}
		if rich {
			r.TLS = &tls.ConnectionState{Version: vp.Uint16("tls-version"), CipherSuite: vp.Uint16("tls-cipher")}
		}
	}
	cfg := config.Proxy{TLSHeaderValue: vp.String("cfg-tls-value")}
	if rich {
		cfg.LocalIP = vp.String("cfg-local-ip")
	}
	if vp.Bool("cfg-client-ip-header") {
		cfg.ClientIPHeader = "X-Client-Ip"
	}
	if cfgTLSHeader {
		cfg.TLSHeader = "X-Tls"
	}
	strip := ""
	if rich {
		strip = vp.String("strip")
	}

	err := addHeaders(r, cfg, strip)
	vp.Assert(err == nil, "well-formed-peer-address-accepted")
	if err != nil {
		return
	}
	get := func(k string) ([]string, bool) { v, ok := r.Header[k]; return v, ok }

	if cfg.ClientIPHeader != "" {
		vp.Cover("client-ip-header")
		v, _ := get("X-Client-Ip")
		vp.Assert(len(v) == 1 && v[0] == ip, "client-ip-header-overwritten-with-peer")
	}
	v, _ := get("X-Real-Ip")
	if hasReal && realip != "" {
		vp.Assert(len(v) == 1 && v[0] == realip, "x-real-ip-from-client-kept")
	} else {
		vp.Assert(len(v) == 1 && v[0] == ip, "x-real-ip-is-peer")
	}
	if ws != 0 {
		// websocket requests are not handled by the reverse proxy: fabio itself appends the peer
		vp.Cover("websocket")
		v, _ := get("X-Forwarded-For")
		if hasXFF {
			vp.Assert(len(v) == 1 && v[0] == xff+", "+ip, "xff-peer-appended-last")
		} else {
			vp.Assert(len(v) == 1 && v[0] == ip, "xff-is-peer")
		}
	}
	v, ok := get("X-Tls")
	if cfg.TLSHeader != "" {
		if isTLS {
			vp.Cover("tls-header-set")
			vp.Assert(ok && len(v) == 1 && v[0] == cfg.TLSHeaderValue, "tls-header-has-configured-value-on-tls")
		} else {
			vp.Cover("tls-header-dropped")
			vp.Assert(!ok, "forged-tls-header-removed-on-plain-connection")
		}
	}
	// X-Forwarded-Proto supplied when absent
	v, _ = get("X-Forwarded-Proto")
	if !hasProto || xfproto == "" {
		if !hasFwd || fwd == "" {
			want := "http"
			if isTLS {
				want = "https"
			}
			vp.Assert(len(v) == 1 && v[0] == want, "x-forwarded-proto-describes-connection")
		}
	} else {
		vp.Assert(len(v) == 1 && v[0] == xfproto, "x-forwarded-proto-from-client-kept")
	}
	v, _ = get("X-Forwarded-Port")
	if !hasPort || xfport == "" {
		want := "80"
		if isTLS {
			want = "443"
		}
		if i := strings.Index(host, ":"); i > 0 && i < len(host)-1 {
			want = host[i+1:]
		}
		vp.Assert(len(v) == 1 && v[0] == want, "x-forwarded-port-describes-connection")
	}
	v, _ = get("X-Forwarded-Host")
	if (!hasHost || xfhost == "") && host != "" {
		vp.Assert(len(v) == 1 && v[0] == host, "x-forwarded-host-is-requested-host")
	}
	v, _ = get("Forwarded")
	vp.Assert(len(v) == 1, "forwarded-present")
	if (!hasFwd || fwd == "") && len(v) == 1 {
		vp.Assert(strings.HasPrefix(v[0], "for="+ip+"; proto="), "forwarded-names-peer")
	}
	if strip != "" {
		v, _ = get("X-Forwarded-Prefix")
		vp.Assert(len(v) == 1 && v[0] == strip, "x-forwarded-prefix")
	}
}

type vpHdrRW struct{ hdr http.Header }

func (w *vpHdrRW) Header() http.Header       { return w.hdr }
func (w *vpHdrRW) Write([]byte) (int, error) { return 0, nil }
func (w *vpHdrRW) WriteHeader(int)           {}

// VPH_C08_sts: Strict-Transport-Security only on TLS connections and only when configured.
func VPH_C08_sts() {
	cfg := config.Proxy{}
	cfg.STSHeader.MaxAge = vp.Int("max-age")
	vp.Assume(cfg.STSHeader.MaxAge <= 2147483647 && cfg.STSHeader.MaxAge >= -2147483648)
	cfg.STSHeader.Subdomains = vp.Bool("subdomains")
	cfg.STSHeader.Preload = vp.Bool("preload")
	r := &http.Request{Header: http.Header{}}
	isTLS := vp.Bool("tls")
	if isTLS {
		r.TLS = &tls.ConnectionState{}
	}
	w := &vpHdrRW{hdr: http.Header{}}
	err := addResponseHeaders(w, r, cfg)
	vp.Assert(err == nil, "no-error")
	v, ok := w.hdr["Strict-Transport-Security"]
	if isTLS && cfg.STSHeader.MaxAge > 0 {
		vp.Cover("sts-set")
		vp.Assert(ok && len(v) == 1, "sts-present-on-tls")
		if ok && len(v) == 1 {
			vp.Assert(strings.HasPrefix(v[0], "max-age="), "sts-max-age-first")
			vp.Assert(strings.Contains(v[0], "; includeSubdomains") == cfg.STSHeader.Subdomains, "sts-subdomains-flag")
			vp.Assert(strings.HasSuffix(v[0], "; preload") == cfg.STSHeader.Preload, "sts-preload-flag")
		}
	} else {
		vp.Cover("sts-absent")
		vp.Assert(!ok, "no-sts-on-plain-or-unconfigured")
	}
}
