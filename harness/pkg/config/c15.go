//go:build verif

package config

import (
	"flag"
	"strings"

	"github.com/fabiolb/fabio/internal/vp"
)

var vpEnvNames = []string{"FABIO_A_B_C", "fabio_a_b_c", "A_B_C", "a_B_c", "OTHER", "FABIO_A_B.C", "A.B.C"}

// VPH_C15_env: loading never panics on any environment block, and a flag takes its value from
// the command line, else the FABIO_-prefixed variable, else the plain variable (any letter case),
// else the default.
func VPH_C15_env() {
	fs := NewFlagSet("fabio", flag.ContinueOnError)
	var val string
	fs.StringVar(&val, "a.b.c", "default", "") // two dots: every dot maps to an underscore
	var args []string
	cmd := vp.Bool("on-cmdline")
	cmdVal := vp.String("cmdline-value")
	vp.Assume(!strings.HasPrefix(cmdVal, "-"))
	if cmd {
		args = []string{"-a.b.c", cmdVal}
	}
	// two environment entries: name from a set (or no '=' at all), arbitrary value
	var environ []string
	var names [2]int
	var values [2]string
	for i := 0; i < 2; i++ {
		names[i] = vp.Choice("env-name", len(vpEnvNames)+1)
		values[i] = vp.String("env-value")
		e := "NOEQUALSIGN"
		for k := range vpEnvNames {
			if names[i] == k {
				e = vpEnvNames[k] + "=" + values[i]
			}
		}
		environ = append(environ, e)
	}
	err := fs.ParseFlags(args, environ, []string{"FABIO_", ""}, nil)
	vp.Assert(err == nil, "well-formed-sources-accepted")
	lookup := func(upper string) (string, bool) {
		// later entries win (os.Environ order), names compared case-insensitively
		v, ok := "", false
		for i := 0; i < 2; i++ {
			if names[i] < len(vpEnvNames) && strings.ToUpper(vpEnvNames[names[i]]) == upper {
				v, ok = values[i], true
			}
		}
		return v, ok
	}
	pv, pok := lookup("FABIO_A_B_C")
	ev, eok := lookup("A_B_C")
	switch {
	case cmd:
		vp.Cover("cmdline")
		vp.Assert(val == cmdVal, "command-line-wins")
	case pok:
		vp.Cover("prefixed-env")
		vp.Assert(val == pv, "prefixed-variable-wins-over-plain")
	case eok:
		vp.Cover("plain-env")
		vp.Assert(val == ev, "plain-variable-used")
	default:
		vp.Cover("default")
		vp.Assert(val == "default", "default-kept")
	}
	vp.Assert(fs.IsSet("a.b.c") == (cmd || pok || eok), "is-set-tracks-sources")
}

// VPH_C15_kvslice: the key/value option parser terminates without panic on every input of up
// to N ASCII characters and returns maps or an error.
func VPH_C15_kvslice() {
	in := vp.StringOf("in", "a-b=;,\"' \\", vp.Param("N"))
	maps, err := parseKVSlice(in)
	if err != nil {
		vp.Cover("rejected")
		vp.Assert(maps == nil, "error-without-result")
		return
	}
	vp.Cover("accepted")
	for _, m := range maps {
		vp.Assert(len(m) > 0, "no-empty-map")
	}
}
