//go:build verif

package logger

import (
	"bytes"
	"strings"

	"github.com/fabiolb/fabio/internal/vp"
)

// VPH_C20_atoi: for every int64 and every pad 0..9 the digits written denote the value,
// at least pad digits, minimal otherwise, sign first.
func VPH_C20_atoi() {
	i := vp.Int64("i")
	pad := vp.IntRange("pad", 0, 9)
	var b bytes.Buffer
	atoi(&b, i, pad)
	out := b.Bytes()
	k := 0
	if i < 0 {
		vp.Cover("negative")
		vp.Assert(len(out) > 0 && out[0] == '-', "sign-first")
		k = 1
	}
	digits := out[k:]
	vp.Assert(len(digits) >= 1, "at-least-one-digit")
	vp.Assert(len(digits) >= pad, "min-width-pad")
	var v uint64
	for _, d := range digits {
		vp.Assert('0' <= d && d <= '9', "decimal-digit")
		v = v*10 + uint64(d-'0')
	}
	abs := uint64(i)
	if i < 0 {
		abs = uint64(-i)
	}
	vp.Assert(v == abs, "digits-denote-value")
	if len(digits) > pad && len(digits) > 1 {
		vp.Cover("longer-than-pad")
		vp.Assert(digits[0] != '0', "no-extra-leading-zero")
	}
}

// VPH_C20_hostport: never panics; splits at the last colon.
func VPH_C20_hostport() {
	s := vp.String("addr")
	host, port := hostport(s)
	if s == "" {
		vp.Assert(host == "" && port == "", "empty")
		return
	}
	if strings.Contains(s, ":") {
		vp.Cover("with-port")
		vp.Assert(host+":"+port == s, "host-colon-port-is-input")
		vp.Assert(!strings.Contains(port, ":"), "port-has-no-colon")
	} else {
		vp.Cover("no-port")
		vp.Assert(host == s && port == "", "no-colon-whole-is-host")
	}
}

// VPH_C20_lex: on every rune string of up to N runes lex consumes 1..len runes.
func VPH_C20_lex() {
	s := vp.Runes("s", vp.Param("N"))
	vp.Assume(len(s) > 0)
	typ, n := lex(s)
	vp.Assert(n <= len(s), "consumes-at-most-input")
	vp.Assert(n >= 0, "non-negative")
	vp.Assert(n > 0, "progress")
	vp.Assert(typ == itemText || typ == itemField || typ == itemHeader, "known-item")
	if typ == itemField {
		vp.Cover("field")
		vp.Assert(s[0] == '$', "field-starts-with-dollar")
	}
	if typ == itemHeader {
		vp.Cover("header")
		vp.Assert(n > len("$header."), "header-has-name")
	}
}

// VPH_C20_parse: parse terminates without panic on every format of up to N runes and
// rejects unknown fields.
func VPH_C20_parse() {
	f := vp.String("format")
	n := vp.Param("N")
	vp.Assume(len(f) <= n)
	for i := 0; i < len(f); i++ {
		vp.Assume(f[i] < 128)
	}
	p, err := parse(f, fields)
	if err != nil {
		vp.Cover("rejected")
		vp.Assert(p == nil, "error-no-pattern")
		vp.Assert(strings.Contains(f, "$"), "only-fields-are-rejected")
		return
	}
	vp.Cover("accepted")
	if f == "" {
		vp.Assert(len(p) == 0, "empty-format-empty-pattern")
	} else {
		vp.Assert(len(p) >= 1, "non-empty-pattern")
	}
}

// VPH_C20_lex_header: "$header.<name>" is one header item ending at the first non-id rune.
func VPH_C20_lex_header() {
	s := vp.Runes("s", vp.Param("N"))
	pre := []rune("$header.")
	vp.Assume(len(s) > len(pre))
	for i := range pre {
		vp.Assume(s[i] == pre[i])
	}
	c := s[len(pre)]
	id := 'a' <= c && c <= 'z' || 'A' <= c && c <= 'Z' || '0' <= c && c <= '9' || c == '_' || c == '-'
	typ, n := lex(s)
	if id {
		vp.Cover("header")
		vp.Assert(typ == itemHeader, "header-item")
		vp.Assert(n > len(pre) && n <= len(s), "header-extent")
	} else {
		vp.Cover("bare-header-field")
		vp.Assert(typ == itemField && (n == len(pre)-1 || n == len(pre)), "dollar-header-is-a-field")
	}
}

// VPH_C20_write: pattern.write renders the fields in order and terminates the line exactly once.
func VPH_C20_write() {
	addr := vp.String("upstream")
	svc := vp.String("service")
	p, err := parse("u=$upstream_addr s=$upstream_service h=$upstream_host p=$upstream_port", fields)
	vp.Assert(err == nil, "valid-format-accepted")
	if err != nil {
		return
	}
	var b bytes.Buffer
	e := &Event{UpstreamAddr: addr, UpstreamService: svc}
	p.write(&b, e)
	out := b.String()
	h, pt := hostport(addr)
	vp.Assert(out == "u="+addr+" s="+svc+" h="+h+" p="+pt+"\n", "line-is-fields-in-order-plus-newline")
	if strings.Contains(addr, ":") {
		vp.Cover("with-port")
		vp.Assert(h+":"+pt == addr, "host-port-split")
	}
}

// VPH_C20_write_empty: a pattern that renders nothing writes nothing (no stray newline).
func VPH_C20_write_empty() {
	p, err := parse("$remote_addr$request_host", fields)
	vp.Assert(err == nil, "valid-format-accepted")
	var b bytes.Buffer
	p.write(&b, &Event{})
	vp.Assert(b.Len() == 0, "nothing-written-for-empty-line")
}
