//go:build verif

package uuid

import "github.com/fabiolb/fabio/internal/vp"

const vpHex = "0123456789abcdef"

// VPH_C20_uuid: 8-4-4-4-12 lower-case hex of bytes 0..15 for every input.
func VPH_C20_uuid() {
	var u [24]byte
	for i := range u {
		u[i] = vp.Uint8("u")
	}
	s := ToString(u)
	vp.Assert(len(s) == 36, "length-36")
	pos := 0
	for i := 0; i < 16; i++ {
		if i == 4 || i == 6 || i == 8 || i == 10 {
			vp.Assert(s[pos] == '-', "dash")
			pos++
		}
		vp.Assert(s[pos] == vpHex[u[i]>>4], "high-nibble")
		vp.Assert(s[pos+1] == vpHex[u[i]&15], "low-nibble")
		pos += 2
	}
}
