//go:build verif

package cert

import (
	"crypto/tls"
	"strings"
	"time"

	"github.com/fabiolb/fabio/internal/vp"
)

// VPH_C11_getcert: for every requested server name the certificate presented is the exact match,
// else the most specific wildcard, else the first certificate (none when strict).
func VPH_C11_getcert() {
	certs := []tls.Certificate{{}, {}, {}, {}}
	cs := certstore{Certificates: certs, NameToCertificate: map[string]*tls.Certificate{
		"foo.com": &certs[1], "*.foo.com": &certs[2], "*.*.com": &certs[3],
	}}
	// server name = 1..4 labels drawn from a set with letter-case variants, optionally followed by dots
	labels := []string{"foo", "Foo", "com", "COM", "x", "bar"}
	k := vp.Choice("labels", 4) + 1
	if n := vp.Param("NSHARDS"); n > 1 {
		vp.Assume((k-1)%n == vp.Param("SHARD"))
	}
	name := ""
	for i := 0; i < k; i++ {
		c := vp.Choice("label", len(labels))
		for j := range labels { // one path per label
			if c == j {
				if i > 0 {
					name += "."
				}
				name += labels[j]
			}
		}
	}
	switch vp.Choice("trailing-dots", 3) {
	case 1:
		name += "."
	case 2:
		name += ".."
	}
	strict := vp.Bool("strict")
	got, err := getCertificate(cs, &tls.ClientHelloInfo{ServerName: name}, strict)
	vp.Assert(err == nil, "no-error-with-certificates")

	n := strings.ToLower(name)
	for len(n) > 0 && n[len(n)-1] == '.' {
		n = n[:len(n)-1]
	}
	var want *tls.Certificate
	switch {
	case n == "foo.com":
		vp.Cover("exact")
		want = &certs[1]
	case strings.HasSuffix(n, ".foo.com") && !strings.Contains(n[:len(n)-len(".foo.com")], "."):
		vp.Cover("wildcard")
		want = &certs[2]
	case strings.HasSuffix(n, ".com") && vpOneDot(n[:len(n)-len(".com")]):
		vp.Cover("double-wildcard")
		want = &certs[3]
	case strict:
		vp.Cover("strict-none")
		want = nil
	default:
		vp.Cover("fallback")
		want = &certs[0]
	}
	vp.Assert(got == want, "best-matching-certificate")
}

func vpOneDot(s string) bool {
	i := strings.Index(s, ".")
	return i >= 0 && !strings.Contains(s[i+1:], ".")
}

// VPH_C11_single: with one certificate and no strict matching it is always presented; an empty
// store reports an error.
func VPH_C11_single() {
	name := vp.String("server-name")
	strict := vp.Bool("strict")
	_, err := getCertificate(certstore{}, &tls.ClientHelloInfo{ServerName: name}, strict)
	vp.Assert(err == ErrNoCertsStored, "empty-store-is-an-error")
	certs := []tls.Certificate{{}}
	got, err := getCertificate(certstore{Certificates: certs}, &tls.ClientHelloInfo{ServerName: name}, false)
	vp.Assert(err == nil && got == &certs[0], "single-certificate-always-presented")
}

// VPH_C11_store: a published set is what the next handshake sees, completely.
func VPH_C11_store() {
	s := NewStore()
	vp.Assert(len(s.certstore().Certificates) == 0, "new-store-empty")
	c, err := tls.X509KeyPair([]byte(vpCertPEM), []byte(vpKeyPEM))
	vp.Assert(err == nil, "test-pair-loads")
	s.SetCertificates([]tls.Certificate{c})
	cs := s.certstore()
	vp.Assert(len(cs.Certificates) == 1, "published-set-visible")
	cfgGet := func(name string) *tls.Certificate {
		got, _ := getCertificate(s.certstore(), &tls.ClientHelloInfo{ServerName: name}, true)
		return got
	}
	vp.Assert(cfgGet("foo.com") == &cs.Certificates[0], "common-name-indexed")
	vp.Assert(cfgGet("x.foo.com") == &cs.Certificates[0], "san-wildcard-indexed")
	vp.Assert(cfgGet("bar.com") == nil, "strict-no-match")
	// a second certificate whose common name is not repeated in its SAN list
	c2, err := tls.X509KeyPair([]byte(vpCert2PEM), []byte(vpKey2PEM))
	vp.Assert(err == nil, "second-test-pair-loads")
	s.SetCertificates([]tls.Certificate{c, c2})
	cs = s.certstore()
	vp.Assert(len(cs.Certificates) == 2, "published-set-visible")
	vp.Assert(cfgGet("shop.com") == &cs.Certificates[1], "common-name-indexed-next-to-sans")
	vp.Assert(cfgGet("SHOP.com.") == &cs.Certificates[1], "common-name-indexed-next-to-sans")
	vp.Assert(cfgGet("www.shop.com") == &cs.Certificates[1], "san-indexed")
	vp.Assert(cfgGet("foo.com") == &cs.Certificates[0], "first-certificate-still-indexed")
	s.SetCertificates(nil)
	vp.Assert(len(s.certstore().Certificates) == 0 && len(s.certstore().NameToCertificate) == 0, "replacement-is-complete")
}

// VPH_C11_watch: a source delivering unusable material neither removes the working set nor
// spins: between two loads there is a sleep of at least a second or a delivered set.
func VPH_C11_watch() {
	ch := make(chan []tls.Certificate)
	good := map[string][]byte{"a-cert.pem": []byte(vpCertPEM), "a-key.pem": []byte(vpKeyPEM), "b-cert.pem": []byte(vpCertPEM), "b-key.pem": []byte(vpKeyPEM)}
	bad := map[string][]byte{"a-cert.pem": []byte(vpCertPEM), "b-cert.pem": []byte(vpCertPEM)} // keys missing
	partial := map[string][]byte{"a-cert.pem": []byte(vpCertPEM), "a-key.pem": []byte(vpKeyPEM), "b-cert.pem": []byte(vpCertPEM)} // one key missing
	calls := 0
	sent := 0
	var lastCall int64
	never := make(chan bool)
	fin := make(chan bool)
	script := vp.Choice("script", 4)
	prevUsable := false // did the previous load return new usable material (which is then delivered)?
	load := func(path string) (map[string][]byte, error) {
		now := vp.Clock()
		if calls > 0 && !prevUsable {
			// nothing was delivered after the previous load: the watcher must have slept
			vp.Assert(now-lastCall >= int64(time.Second), "no-busy-loop-between-loads")
		}
		prevUsable = calls == 0
		lastCall = now
		calls++
		switch {
		case calls == 1:
			return good, nil
		case calls == 2 && script == 0:
			vp.Cover("unusable-material")
			return bad, nil
		case calls == 2 && script == 1:
			vp.Cover("load-error")
			return nil, errTest
		case calls == 2 && script == 3:
			// some certificates usable, one not: the working set must stay as it is
			vp.Cover("partly-unusable-material")
			return partial, nil
		case calls == 2:
			vp.Cover("unchanged")
			return good, nil
		case calls == 3:
			return good, nil
		}
		close(fin)
		<-never
		return nil, nil
	}
	go watch(ch, time.Second, "path", load)
	for {
		select {
		case set := <-ch:
			sent++
			vp.Assert(len(set) == 2, "only-complete-usable-sets-are-delivered")
		case <-fin:
			vp.Assert(sent >= 1, "working-set-delivered")
			vp.Assert(sent == 1, "unusable-or-unchanged-material-is-not-delivered-again")
			return
		}
	}
}

type vpErr struct{}

func (vpErr) Error() string { return "load failed" }

var errTest error = vpErr{}

// VPH_C11_getcert_cv: the same for EVERY server name of up to NAMELEN characters over letters of
// both cases and dots (a character vector: each length, symbolic characters).
func VPH_C11_getcert_cv() {
	certs := []tls.Certificate{{}, {}, {}, {}}
	cs := certstore{Certificates: certs, NameToCertificate: map[string]*tls.Certificate{
		"foo.com": &certs[1], "*.foo.com": &certs[2], "*.*.com": &certs[3],
	}}
	max := vp.Param("NAMELEN")
	ln := vp.Choice("name-len", max+1)
	name := ""
	for i := 0; i <= max; i++ {
		if ln == i {
			name = vp.Chars("name", "a-zA-Z.", i)
		}
	}
	if n := vp.Param("NSHARDS"); n > 1 {
		vp.Assume(len(name)%n == vp.Param("SHARD"))
	}
	strict := vp.Bool("strict")
	got, err := getCertificate(cs, &tls.ClientHelloInfo{ServerName: name}, strict)
	vp.Assert(err == nil, "no-error-with-certificates")

	n := strings.ToLower(name)
	for len(n) > 0 && n[len(n)-1] == '.' {
		n = n[:len(n)-1]
	}
	var want *tls.Certificate
	switch {
	case n == "foo.com":
		vp.Cover("exact")
		want = &certs[1]
	case strings.HasSuffix(n, ".foo.com") && !strings.Contains(n[:len(n)-len(".foo.com")], "."):
		vp.Cover("wildcard")
		want = &certs[2]
	case strings.HasSuffix(n, ".com") && vpOneDot(n[:len(n)-len(".com")]):
		vp.Cover("double-wildcard")
		want = &certs[3]
	case strict:
		want = nil
	default:
		want = &certs[0]
	}
	vp.Assert(got == want, "best-matching-certificate")
}
