//go:build verif

// Package vp holds the harness primitives. Under the symbolic executor (symgo) every
// function here is intercepted; compiled natively they read concrete values from the
// replay file named by $VP_REPLAY so that the same harness reproduces a counterexample
// against the real code.
package vp

import (
	"bytes"
	"compress/gzip"
	"encoding/json"
	"io"
	"fmt"
	"math"
	"math/big"
	"net"
	"os"
	"sync"
	"testing"
	"time"
	"unsafe"
)

type replayDoc struct {
	Harness string                    `json:"harness"`
	Inputs  map[string]map[string]any `json:"inputs"`
	Params  map[string]int            `json:"params"`
}

var (
	doc    replayDoc
	labelN = map[string]int{}
)

type assertFail struct{ label string }
type assumeFail struct{}

func next(label string) map[string]any {
	n := labelN[label]
	labelN[label] = n + 1
	if n > 0 {
		label = fmt.Sprintf("%s#%d", label, n)
	}
	return doc.Inputs[label]
}

func bigOf(m map[string]any) *big.Int {
	if m == nil {
		return new(big.Int)
	}
	s, _ := m["v"].(string)
	i, ok := new(big.Int).SetString(s, 10)
	if !ok {
		return new(big.Int)
	}
	return i
}

func Int(label string) int       { return int(bigOf(next(label)).Int64()) }
func Int64(label string) int64   { return bigOf(next(label)).Int64() }
func Int32(label string) int32   { return int32(bigOf(next(label)).Int64()) }
func Int16(label string) int16   { return int16(bigOf(next(label)).Int64()) }
func Int8(label string) int8     { return int8(bigOf(next(label)).Int64()) }
func Uint8(label string) uint8   { return uint8(bigOf(next(label)).Uint64()) }
func Byte(label string) byte     { return uint8(bigOf(next(label)).Uint64()) }
func Uint16(label string) uint16 { return uint16(bigOf(next(label)).Uint64()) }
func Uint32(label string) uint32 { return uint32(bigOf(next(label)).Uint64()) }
func Uint64(label string) uint64 { return bigOf(next(label)).Uint64() }

func IntRange(label string, lo, hi int) int { return int(bigOf(next(label)).Int64()) }
func Choice(label string, n int) int        { return int(bigOf(next(label)).Int64()) }

func Bool(label string) bool {
	m := next(label)
	b, _ := m["v"].(bool)
	return b
}

func bytesOf(m map[string]any) []byte {
	if m == nil {
		return nil
	}
	l, _ := m["bytes"].([]any)
	out := make([]byte, len(l))
	for i, x := range l {
		f, _ := x.(float64)
		out[i] = byte(int(f))
	}
	return out
}

func String(label string) string { return string(bytesOf(next(label))) }

// StringOf: a string of at most maxLen characters over a character set written as
// single characters and a-z style ranges (e.g. "a-zA-Z0-9.:-").
func StringOf(label, charset string, maxLen int) string { return string(bytesOf(next(label))) }

// Chars is a string of exactly n characters over charset whose characters are individual symbolic
// codes: string library calls and regular expressions on it are executed position by position.
func Chars(label, charset string, n int) string { return string(bytesOf(next(label))) }

func Bytes(label string, maxLen int) []byte {
	b := bytesOf(next(label))
	if b == nil {
		b = []byte{}
	}
	return b
}

// Runes returns ASCII runes (0..127).
func Runes(label string, maxLen int) []rune {
	b := bytesOf(next(label))
	r := make([]rune, len(b))
	for i, c := range b {
		r[i] = rune(c & 0x7f)
	}
	return r
}

func Float64(label string) float64 {
	m := next(label)
	if m == nil {
		return 0
	}
	fk, _ := m["fk"].(string)
	switch fk {
	case "1":
		return math.Inf(1)
	case "2":
		return math.Inf(-1)
	case "3":
		return math.NaN()
	}
	s, _ := m["v"].(string)
	r, ok := new(big.Rat).SetString(s)
	if !ok {
		return 0
	}
	f, _ := r.Float64()
	return f
}

func Param(name string) int { return doc.Params[name] }

// Assume / Assert end the replay at once with a result line; this also works when the
// harness code runs on a goroutine other than the one RunReplay was called on.
func Assume(cond bool) {
	if !cond {
		fmt.Println("VP-RESULT: assume-fail")
		os.Stdout.Sync()
		os.Exit(0)
	}
}

func Assert(cond bool, label string) {
	if !cond {
		fmt.Printf("VP-RESULT: assert-fail %s\n", label)
		os.Stdout.Sync()
		os.Exit(0)
	}
}

func Cover(label string)              {}
func Known(id string, cond bool) bool { return cond }
func Observe(label string, v any)     {}

// Gunzip decompresses b natively; under symgo compress/gzip is an identity codec and so is this.
func Gunzip(b []byte) []byte {
	zr, err := gzip.NewReader(bytes.NewReader(b))
	if err != nil {
		return nil
	}
	out, err := io.ReadAll(zr)
	if err != nil {
		return nil
	}
	return out
}

// CutBefore: under symgo the function about to call callee returns early; natively a no-op.
func CutBefore(callee string) {}

// Clock: nanoseconds of a clock that time.Sleep advances (virtual under symgo, real natively).
func Clock() int64 { return time.Now().UnixNano() }

// CutAt: under symgo the function reaching the (unique) source line containing pattern
// returns there; natively a no-op.
func CutAt(pattern string) {}

// RunReplay runs the harness named in $VP_REPLAY and prints one VP-RESULT line.
func RunReplay(t *testing.T, hs map[string]func()) {
	path := os.Getenv("VP_REPLAY")
	if path == "" {
		t.Skip("VP_REPLAY not set")
	}
	b, err := os.ReadFile(path)
	if err != nil {
		t.Fatal(err)
	}
	if err := json.Unmarshal(b, &doc); err != nil {
		t.Fatal(err)
	}
	fn := hs[doc.Harness]
	if fn == nil {
		fmt.Printf("VP-RESULT: no-such-harness %s\n", doc.Harness)
		return
	}
	defer func() {
		r := recover()
		switch x := r.(type) {
		case nil:
			fmt.Println("VP-RESULT: ok")
		case assertFail:
			fmt.Printf("VP-RESULT: assert-fail %s\n", x.label)
		case assumeFail:
			fmt.Println("VP-RESULT: assume-fail")
		default:
			fmt.Printf("VP-RESULT: panic %v\n", r)
		}
	}()
	fn()
}

// BoundReceiver returns the receiver captured by a bound method value with a pointer
// receiver (e.g. (&net.Dialer{...}).Dial), or nil.
func BoundReceiver(f any) unsafe.Pointer {
	type eface struct{ typ, data unsafe.Pointer }
	e := (*eface)(unsafe.Pointer(&f))
	if e.data == nil {
		return nil
	}
	// a func value is pointer-shaped: the interface data word points at {code pointer, captured receiver}
	return (*[2]unsafe.Pointer)(e.data)[1]
}

// ---------- upstream model (tunnels) ----------
//
// Natively UpstreamListen starts a real loopback listener that records everything the
// dialled connections receive. Under symgo net.Dial / net.DialTimeout are redirected to ModelDial,
// whose connections record what is written to them and never finish before they are closed.

type upstreamRec struct {
	mu    sync.Mutex
	buf   []byte
	dials int
	wg    sync.WaitGroup
}

var upstream *upstreamRec

func UpstreamListen() string {
	l, err := net.Listen("tcp", "127.0.0.1:0")
	if err != nil {
		panic(err)
	}
	u := &upstreamRec{}
	upstream = u
	go func() {
		for {
			c, err := l.Accept()
			if err != nil {
				return
			}
			u.mu.Lock()
			u.dials++
			u.mu.Unlock()
			u.wg.Add(1)
			go func() {
				defer u.wg.Done()
				b, _ := io.ReadAll(c)
				u.mu.Lock()
				u.buf = append(u.buf, b...)
				u.mu.Unlock()
				c.Close()
			}()
		}
	}()
	return l.Addr().String()
}

// UpstreamReceived returns the bytes the upstream got, after its connections were closed.
func UpstreamReceived() []byte {
	if upstream == nil {
		return nil
	}
	done := make(chan bool)
	go func() { upstream.wg.Wait(); close(done) }()
	select {
	case <-done:
	case <-time.After(3 * time.Second):
	}
	upstream.mu.Lock()
	defer upstream.mu.Unlock()
	return append([]byte(nil), upstream.buf...)
}

func UpstreamDials() int {
	if upstream == nil {
		return 0
	}
	time.Sleep(50 * time.Millisecond)
	upstream.mu.Lock()
	defer upstream.mu.Unlock()
	return upstream.dials
}

type ModelConn struct {
	buf      []byte
	closed   chan bool
	isClosed bool
}

type modelAddr struct{}

func (modelAddr) Network() string { return "tcp" }
func (modelAddr) String() string  { return "192.0.2.1:1" }

func (c *ModelConn) Read(p []byte) (int, error) { <-c.closed; return 0, io.EOF }
func (c *ModelConn) Write(p []byte) (int, error) {
	c.buf = append(c.buf, p...)
	return len(p), nil
}
func (c *ModelConn) Close() error {
	if !c.isClosed {
		c.isClosed = true
		close(c.closed)
	}
	return nil
}
func (c *ModelConn) LocalAddr() net.Addr                { return modelAddr{} }
func (c *ModelConn) RemoteAddr() net.Addr               { return modelAddr{} }
func (c *ModelConn) SetDeadline(t time.Time) error      { return nil }
func (c *ModelConn) SetReadDeadline(t time.Time) error  { return nil }
func (c *ModelConn) SetWriteDeadline(t time.Time) error { return nil }

var modelConns []*ModelConn

func ModelDial(network, addr string) (net.Conn, error) {
	c := &ModelConn{closed: make(chan bool)}
	modelConns = append(modelConns, c)
	return c, nil
}

func ModelReceived() []byte {
	var b []byte
	for _, c := range modelConns {
		b = append(b, c.buf...)
	}
	return b
}

func ModelDials() int { return len(modelConns) }
