package main

// regexp on constant patterns (read from the SSA at run time).
//   - concrete subject: the real regexp package is called natively
//   - symbolic subject, MatchString: the pattern is translated to an SMT-LIB RegLan
//   - symbolic subject, FindStringSubmatch: supported for "deterministic sequence" patterns
//     (anchored concatenations of literals, class+ / class*, captures of those and optional
//     groups) whose decomposition is unique because adjacent pieces have disjoint classes.

import (
	"fmt"
	"regexp"
	"regexp/syntax"
	"strings"
)

func init() {
	compile := func(e *Engine, st *State, c *callCtx) bool {
		p := c.str(e, st, 0)
		if !p.K {
			unsup("regexp with non-constant pattern")
		}
		if _, err := regexp.Compile(p.Str); err != nil {
			if c.fn.Name() == "MustCompile" {
				e.doPanic(st, OpaqueVal{"regexp: Compile: " + err.Error()}, "panic regexp.MustCompile", "explicit")
				return true
			}
			c.ret(st, TupleVal{nilPtr, e.newError(st, KStr(err.Error()))})
			return true
		}
		id := st.newObj(RegexpVal{Pat: p.Str}, nil)
		if c.fn.Name() == "MustCompile" {
			c.ret(st, PtrVal{Obj: id})
		} else {
			c.ret(st, TupleVal{PtrVal{Obj: id}, IfaceVal{}})
		}
		return true
	}
	reg("regexp.MustCompile", compile)
	reg("regexp.Compile", compile)
	reOf := func(e *Engine, st *State, c *callCtx) *regexp.Regexp {
		p, ok := c.args[0].(PtrVal)
		if !ok || p.Obj == 0 {
			unsup("regexp method on %s", describe(c.args[0]))
		}
		rv, ok := st.heap[p.Obj].V.(RegexpVal)
		if !ok {
			unsup("regexp object is %s", describe(st.heap[p.Obj].V))
		}
		return regexp.MustCompile(rv.Pat)
	}
	reg("(*regexp.Regexp).MatchString", func(e *Engine, st *State, c *callCtx) bool {
		re := reOf(e, st, c)
		s := c.str(e, st, 1)
		if s.K {
			c.ret(st, KBool(re.MatchString(s.Str)))
			return true
		}
		rl, err := regexToSMT(re.String(), false)
		if err != nil {
			unsup("regexp %q: %v", re.String(), err)
		}
		c.ret(st, &Term{S: "(str.in_re " + s.S + " " + rl + ")", Sort: SBool})
		return true
	})
	reg("(*regexp.Regexp).String", func(e *Engine, st *State, c *callCtx) bool {
		c.ret(st, KStr(reOf(e, st, c).String()))
		return true
	})
	reg("(*regexp.Regexp).FindStringSubmatch", func(e *Engine, st *State, c *callCtx) bool {
		re := reOf(e, st, c)
		s := c.str(e, st, 1)
		mk := func(s2 *State, caps []*Term) Value {
			el := make([]Value, len(caps))
			for i, t := range caps {
				el[i] = t
			}
			id := s2.newObj(ArrayVal{E: el}, nil)
			n := KInt64(int64(len(el)))
			return SliceVal{Obj: id, Off: KInt64(0), Len: n, Cap: n}
		}
		nilS := SliceVal{Off: KInt64(0), Len: KInt64(0), Cap: KInt64(0)}
		if s.K {
			m := re.FindStringSubmatch(s.Str)
			if m == nil {
				c.ret(st, nilS)
				return true
			}
			caps := make([]*Term, len(m))
			for i, x := range m {
				caps[i] = KStr(x)
			}
			c.ret(st, mk(st, caps))
			return true
		}
		alts, err := e.seqRegex(re, s)
		if err != nil {
			unsup("regexp %q on a symbolic string: %v", re.String(), err)
		}
		e.res.Assumptions["regexp capture model: anchored sequence patterns with a unique decomposition (adjacent pieces have disjoint character classes)"]++
		var out []Alt
		var nomatch []*Term
		for _, a := range alts {
			a := a
			out = append(out, Alt{Cond: a.cond, Tag: "regexp-match", Do: func(s2 *State) { c.ret(s2, mk(s2, a.caps)) }})
			nomatch = append(nomatch, Not(a.cond))
		}
		full, err := regexToSMT(re.String(), false)
		if err != nil {
			unsup("regexp %q: %v", re.String(), err)
		}
		_ = nomatch
		out = append(out, Alt{Cond: Not(&Term{S: "(str.in_re " + s.S + " " + full + ")", Sort: SBool}), Tag: "regexp-nomatch", Do: func(s2 *State) { c.ret(s2, nilS) }})
		return e.branch(st, out)
	})
}

// ---------- regexp/syntax -> SMT-LIB RegLan ----------

func regexToSMT(pat string, anchoredOnly bool) (string, error) {
	re, err := syntax.Parse(pat, syntax.Perl)
	if err != nil {
		return "", err
	}
	re = re.Simplify()
	begin, end := false, false
	body, err := reToSMT(re, &begin, &end, true)
	if err != nil {
		return "", err
	}
	// unanchored sides match anything
	if !begin {
		body = "(re.++ re.all " + body + ")"
	}
	if !end {
		body = "(re.++ " + body + " re.all)"
	}
	return body, nil
}

func classToSMT(runes []rune) string {
	var parts []string
	for i := 0; i+1 < len(runes); i += 2 {
		lo, hi := runes[i], runes[i+1]
		if lo > 255 {
			continue
		}
		if hi > 255 {
			hi = 255
		}
		if lo == hi {
			parts = append(parts, "(str.to_re "+smtStrLit(string([]byte{byte(lo)}))+")")
		} else {
			parts = append(parts, "(re.range "+smtStrLit(string([]byte{byte(lo)}))+" "+smtStrLit(string([]byte{byte(hi)}))+")")
		}
	}
	switch len(parts) {
	case 0:
		return "re.none"
	case 1:
		return parts[0]
	}
	return "(re.union " + strings.Join(parts, " ") + ")"
}

func reToSMT(re *syntax.Regexp, begin, end *bool, top bool) (string, error) {
	switch re.Op {
	case syntax.OpEmptyMatch:
		return `(str.to_re "")`, nil
	case syntax.OpLiteral:
		var b []byte
		for _, r := range re.Rune {
			if r > 255 {
				return "", fmt.Errorf("non-byte literal")
			}
			b = append(b, byte(r))
		}
		if re.Flags&syntax.FoldCase != 0 {
			return "", fmt.Errorf("case folding")
		}
		return "(str.to_re " + smtStrLit(string(b)) + ")", nil
	case syntax.OpCharClass:
		return classToSMT(re.Rune), nil
	case syntax.OpAnyCharNotNL:
		return `(re.union (re.range "\u{0}" "\u{9}") (re.range "\u{b}" "\u{ff}"))`, nil
	case syntax.OpAnyChar:
		return `(re.range "\u{0}" "\u{ff}")`, nil
	case syntax.OpBeginText, syntax.OpBeginLine:
		if begin != nil {
			*begin = true
		}
		return `(str.to_re "")`, nil
	case syntax.OpEndText, syntax.OpEndLine:
		if end != nil {
			*end = true
		}
		return `(str.to_re "")`, nil
	case syntax.OpCapture:
		return reToSMT(re.Sub[0], nil, nil, false)
	case syntax.OpStar:
		x, err := reToSMT(re.Sub[0], nil, nil, false)
		return "(re.* " + x + ")", err
	case syntax.OpPlus:
		x, err := reToSMT(re.Sub[0], nil, nil, false)
		return "(re.+ " + x + ")", err
	case syntax.OpQuest:
		x, err := reToSMT(re.Sub[0], nil, nil, false)
		return "(re.opt " + x + ")", err
	case syntax.OpConcat:
		var parts []string
		for i, s := range re.Sub {
			var b, e2 *bool
			if top && i == 0 {
				b = begin
			}
			if top && i == len(re.Sub)-1 {
				e2 = end
			}
			if s.Op == syntax.OpBeginText && b == nil || s.Op == syntax.OpEndText && e2 == nil {
				return "", fmt.Errorf("anchor in the middle")
			}
			x, err := reToSMT(s, b, e2, false)
			if err != nil {
				return "", err
			}
			parts = append(parts, x)
		}
		if len(parts) == 1 {
			return parts[0], nil
		}
		return "(re.++ " + strings.Join(parts, " ") + ")", nil
	case syntax.OpAlternate:
		var parts []string
		for _, s := range re.Sub {
			x, err := reToSMT(s, nil, nil, false)
			if err != nil {
				return "", err
			}
			parts = append(parts, x)
		}
		return "(re.union " + strings.Join(parts, " ") + ")", nil
	}
	return "", fmt.Errorf("unsupported regexp op %v", re.Op)
}

// ---------- deterministic sequence patterns with captures ----------

type seqAlt struct {
	cond *Term
	caps []*Term
}

type seqPiece struct {
	lit   string // literal piece
	class string // RegLan of a repeated class piece
	min   int
	cap   int // capture index (0 = none)
}

// seqRegex decomposes s according to the pattern; one alternative per combination of optional groups.
func (e *Engine) seqRegex(re *regexp.Regexp, s *Term) ([]seqAlt, error) {
	parsed, err := syntax.Parse(re.String(), syntax.Perl)
	if err != nil {
		return nil, err
	}
	ncap := re.NumSubexp()
	if parsed.Op != syntax.OpConcat {
		parsed = &syntax.Regexp{Op: syntax.OpConcat, Sub: []*syntax.Regexp{parsed}}
	}
	subs := parsed.Sub
	if len(subs) < 2 || subs[0].Op != syntax.OpBeginText || subs[len(subs)-1].Op != syntax.OpEndText {
		return nil, fmt.Errorf("pattern is not anchored at both ends")
	}
	subs = subs[1 : len(subs)-1]
	// variants: each optional group present or absent
	type variant struct {
		pieces  []seqPiece
		present map[int]bool
	}
	variants := []variant{{present: map[int]bool{}}}
	var add func(v variant, r *syntax.Regexp, capIdx int) ([]variant, error)
	add = func(v variant, r *syntax.Regexp, capIdx int) ([]variant, error) {
		switch r.Op {
		case syntax.OpLiteral:
			var b []byte
			for _, x := range r.Rune {
				b = append(b, byte(x))
			}
			v.pieces = append(append([]seqPiece(nil), v.pieces...), seqPiece{lit: string(b), cap: capIdx})
			return []variant{v}, nil
		case syntax.OpPlus, syntax.OpStar:
			if r.Sub[0].Op != syntax.OpCharClass && r.Sub[0].Op != syntax.OpAnyCharNotNL {
				return nil, fmt.Errorf("repetition of a non-class")
			}
			cl, err := reToSMT(r.Sub[0], nil, nil, false)
			if err != nil {
				return nil, err
			}
			mn := 0
			if r.Op == syntax.OpPlus {
				mn = 1
			}
			v.pieces = append(append([]seqPiece(nil), v.pieces...), seqPiece{class: cl, min: mn, cap: capIdx})
			return []variant{v}, nil
		case syntax.OpCapture:
			inner := r.Sub[0]
			switch inner.Op {
			case syntax.OpLiteral, syntax.OpPlus, syntax.OpStar:
				nv := v
				nv.present = copyPresent(v.present)
				nv.present[r.Cap] = true
				return add(nv, inner, r.Cap)
			case syntax.OpConcat:
				nv := v
				nv.present = copyPresent(v.present)
				nv.present[r.Cap] = true
				nv.pieces = append(append([]seqPiece(nil), v.pieces...), seqPiece{cap: -r.Cap}) // group start marker
				vs := []variant{nv}
				for _, sub := range inner.Sub {
					var next []variant
					for _, x := range vs {
						y, err := add(x, sub, 0)
						if err != nil {
							return nil, err
						}
						next = append(next, y...)
					}
					vs = next
				}
				for i := range vs {
					vs[i].pieces = append(append([]seqPiece(nil), vs[i].pieces...), seqPiece{cap: -1000 - r.Cap}) // group end marker
				}
				return vs, nil
			}
			return nil, fmt.Errorf("unsupported capture body %v", inner.Op)
		case syntax.OpQuest:
			with, err := add(v, r.Sub[0], 0)
			if err != nil {
				return nil, err
			}
			return append(with, v), nil
		case syntax.OpConcat:
			vs := []variant{v}
			for _, sub := range r.Sub {
				var next []variant
				for _, x := range vs {
					y, err := add(x, sub, 0)
					if err != nil {
						return nil, err
					}
					next = append(next, y...)
				}
				vs = next
			}
			return vs, nil
		}
		return nil, fmt.Errorf("unsupported element %v", r.Op)
	}
	for _, sub := range subs {
		var next []variant
		for _, v := range variants {
			y, err := add(v, sub, 0)
			if err != nil {
				return nil, err
			}
			next = append(next, y...)
		}
		variants = next
	}
	var out []seqAlt
	for _, v := range variants {
		caps := make([]*Term, ncap+1)
		for i := range caps {
			caps[i] = KStr("")
		}
		caps[0] = s
		var conds []*Term
		var cat []*Term
		groupStart := map[int]int{}
		for _, p := range v.pieces {
			switch {
			case p.cap < -1000+0 && p.cap <= -1000:
				g := -p.cap - 1000
				caps[g] = Concat(cat[groupStart[g]:]...)
				continue
			case p.cap < 0:
				groupStart[-p.cap] = len(cat)
				continue
			}
			var t *Term
			if p.class == "" {
				t = KStr(p.lit)
			} else {
				t = e.freshVar("re", SStr)
				rl := "(re.* " + p.class + ")"
				if p.min == 1 {
					rl = "(re.+ " + p.class + ")"
				}
				conds = append(conds, &Term{S: "(str.in_re " + t.S + " " + rl + ")", Sort: SBool})
			}
			cat = append(cat, t)
			if p.cap > 0 {
				caps[p.cap] = t
			}
		}
		conds = append(conds, Eq(s, Concat(cat...)))
		out = append(out, seqAlt{cond: And(conds...), caps: caps})
	}
	return out, nil
}

func copyPresent(m map[int]bool) map[int]bool {
	n := map[int]bool{}
	for k, v := range m {
		n[k] = v
	}
	return n
}

// ---------- bufio.Scanner (line mode) over a modelled reader ----------

type ScanVal struct {
	Rest   *Term  // bytes already pulled from the reader and not yet returned
	Tok    *Term
	Reader string // side-state key of the underlying bytes.Buffer rope ("" = fully consumed)
}

const scanChunk = 4096 // bufio.Scanner's initial buffer: the reader is drained in chunks of this size

func init() {
	reg("bufio.NewScanner", func(e *Engine, st *State, c *callCtx) bool {
		iv, ok := c.args[0].(IfaceVal)
		if !ok || iv.T == nil {
			unsup("bufio.NewScanner(nil)")
		}
		p, ok := iv.V.(PtrVal)
		if !ok {
			unsup("bufio.NewScanner over %s", iv.T)
		}
		k := "rope" + ptrKey(p)
		r, isRope := st.side[k].(RopeVal)
		if !isRope && !strings.Contains(iv.T.String(), "bytes.Buffer") {
			unsup("bufio.NewScanner over %s", iv.T)
		}
		e.res.Assumptions["bufio.Scanner: line mode over an in-memory buffer read in 4096-byte chunks (symbolic content is read at once), no carriage returns, lines below the token limit"]++
		content := e.toSMTString(st, e.ropeString(st, r))
		sv := ScanVal{Rest: KStr(""), Tok: KStr(""), Reader: k}
		if !content.K {
			// symbolic content: read everything at once
			sv.Rest, sv.Reader = content, ""
			st.side[k] = RopeVal{}
		} else {
			st.side[k] = RopeVal{Segs: []Value{content}}
		}
		id := st.newObj(sv, nil)
		c.ret(st, PtrVal{Obj: id})
		return true
	})
	scanOf := func(st *State, c *callCtx) (PtrVal, ScanVal) {
		p, ok := c.args[0].(PtrVal)
		if !ok || p.Obj == 0 {
			unsup("Scanner method on %s", describe(c.args[0]))
		}
		sv, ok := st.heap[p.Obj].V.(ScanVal)
		if !ok {
			unsup("not a modelled scanner")
		}
		return p, sv
	}
	reg("(*bufio.Scanner).Scan", func(e *Engine, st *State, c *callCtx) bool {
		p, sv := scanOf(st, c)
		set := func(s *State, rest, tok *Term, reader string) {
			s.heap[p.Obj] = &Obj{V: ScanVal{Rest: rest, Tok: tok, Reader: reader}}
		}
		if sv.Rest.K {
			rest, reader := sv.Rest.Str, sv.Reader
			// pull chunks from the reader until a full line is buffered or the reader is empty
			for !strings.Contains(rest, "\n") && reader != "" {
				r, _ := st.side[reader].(RopeVal)
				content := ""
				if len(r.Segs) > 0 {
					ct := e.toSMTString(st, e.ropeString(st, r))
					if !ct.K {
						unsup("scanner over a buffer that became symbolic")
					}
					content = ct.Str
				}
				if content == "" {
					reader = ""
					break
				}
				n := scanChunk
				if n > len(content) {
					n = len(content)
				}
				rest += content[:n]
				st.side[reader] = RopeVal{Segs: []Value{KStr(content[n:])}}
				if n == len(content) {
					st.side[reader] = RopeVal{}
				}
			}
			if rest == "" {
				set(st, KStr(""), sv.Tok, reader)
				c.ret(st, tFalse)
				return true
			}
			i := strings.IndexByte(rest, '\n')
			if i < 0 {
				set(st, KStr(""), KStr(strings.TrimSuffix(rest, "\r")), reader)
			} else {
				set(st, KStr(rest[i+1:]), KStr(strings.TrimSuffix(rest[:i], "\r")), reader)
			}
			c.ret(st, tTrue)
			return true
		}
		idx := e.name(StrIndexOf(sv.Rest, KStr("\n"), KInt64(0)))
		ln := StrLen(sv.Rest)
		return e.branch(st, []Alt{
			{Cond: Eq(sv.Rest, KStr("")), Tag: "scan=eof", Do: func(s *State) { c.ret(s, tFalse) }},
			{Cond: Ge(idx, KInt64(0)), Tag: "scan=line", Do: func(s *State) {
				set(s, e.name(Substr(sv.Rest, Add(idx, KInt64(1)), Sub(ln, Add(idx, KInt64(1))))), e.name(Substr(sv.Rest, KInt64(0), idx)), sv.Reader)
				c.ret(s, tTrue)
			}},
			{Cond: And(Not(Eq(sv.Rest, KStr(""))), Lt(idx, KInt64(0))), Tag: "scan=last", Do: func(s *State) {
				set(s, KStr(""), sv.Rest, sv.Reader)
				c.ret(s, tTrue)
			}},
		})
	})
	reg("(*bufio.Scanner).Text", func(e *Engine, st *State, c *callCtx) bool {
		_, sv := scanOf(st, c)
		c.ret(st, sv.Tok)
		return true
	})
	reg("(*bufio.Scanner).Err", func(e *Engine, st *State, c *callCtx) bool {
		c.ret(st, IfaceVal{})
		return true
	})
}
