package main

import (
	"fmt"
	"go/token"
	"go/types"
	"sort"
	"strings"
	"time"

	"golang.org/x/tools/go/ssa"
)

type Deferred struct {
	Fn   FuncVal
	Args []Value
	// invoke-mode
	Recv   Value
	Method *types.Func
}

type Frame struct {
	fn     *ssa.Function
	blk    *ssa.BasicBlock
	prev   *ssa.BasicBlock
	pc     int
	locals map[ssa.Value]Value
	caller *Frame
	onRet  func(st *State, rv Value) // continuation in the caller; nil at top level
	defers []Deferred
	ifCnt  map[ssa.Instruction]int // symbolic branch decisions per instruction (unwinding)
	tolerant bool
}

type PanicInfo struct {
	Val  Value
	Site string
	Kind string // "index", "nil", "explicit", ...
}

type State struct {
	fr      *Frame
	consumed bool // the state was run to completion by a nested branch
	heap    map[int]*Obj
	nextObj int
	globals map[*ssa.Global]int
	side    map[string]Value // hidden state of modelled library objects (sync.Map ...)
	panic   *PanicInfo
	known   []string // active known-finding regions on this path
	covers  map[string]bool
	trace   []string // branch decisions (for samples)
	depth   int
	instrs  int
	inputs  []*Input // symbolic inputs created on this path (label order)
	labelN  map[string]int
	ghost   map[string]Value
	ufApps  []*UFApp
	gs      []*Goroutine // goroutines (nil until the first go statement / channel operation)
	cur     int
}

type Input struct {
	Label string
	Kind  string // int, bool, string, bytes, float
	Type  string
	Term  *Term  // scalar term / array term
	Len   *Term  // bytes: length term
	Max   int    // bytes: max length
	FKind *Term  // float: kind term
}

func (st *State) clone() *State {
	n := &State{
		heap: make(map[int]*Obj, len(st.heap)), nextObj: st.nextObj,
		globals: st.globals, // filled before harness start only; shared read-only afterwards
		side:    make(map[string]Value, len(st.side)),
		panic:   st.panic, depth: st.depth, instrs: st.instrs,
		known:  append([]string(nil), st.known...),
		trace:  append([]string(nil), st.trace...),
		inputs: append([]*Input(nil), st.inputs...),
		covers: map[string]bool{},
		labelN: map[string]int{},
		ghost:  map[string]Value{},
		ufApps: append([]*UFApp(nil), st.ufApps...),
	}
	for k, v := range st.heap {
		n.heap[k] = v
	}
	for k, v := range st.side {
		n.side[k] = v
	}
	for k, v := range st.covers {
		n.covers[k] = v
	}
	for k, v := range st.labelN {
		n.labelN[k] = v
	}
	for k, v := range st.ghost {
		n.ghost[k] = v
	}
	var cp func(f *Frame) *Frame
	cp = func(f *Frame) *Frame {
		if f == nil {
			return nil
		}
		g := *f
		g.locals = make(map[ssa.Value]Value, len(f.locals))
		for k, v := range f.locals {
			g.locals[k] = v
		}
		g.defers = append([]Deferred(nil), f.defers...)
		if f.ifCnt != nil {
			g.ifCnt = make(map[ssa.Instruction]int, len(f.ifCnt))
			for k, v := range f.ifCnt {
				g.ifCnt[k] = v
			}
		}
		g.caller = cp(f.caller)
		return &g
	}
	n.fr = cp(st.fr)
	if st.gs != nil {
		n.cur = st.cur
		n.gs = cloneGs(st.gs, cp, st.cur)
		n.gs[n.cur].fr = n.fr
	}
	return n
}

func (st *State) newObj(v Value, t types.Type) int {
	st.nextObj++
	st.heap[st.nextObj] = &Obj{V: v, T: t}
	return st.nextObj
}

// ---------- findings / results ----------

type Finding struct {
	Harness string            `json:"harness"`
	Kind    string            `json:"kind"` // assert | panic
	Label   string            `json:"label"`
	Site    string            `json:"site"`
	Known   []string          `json:"known_regions,omitempty"`
	Inputs  map[string]any    `json:"inputs"`
	Params  map[string]int    `json:"params"`
	Trace   []string          `json:"trace,omitempty"`
	Status  string            `json:"status"` // candidate | confirmed | unconfirmed | known
	Replay  string            `json:"replay,omitempty"`
	Note    string            `json:"note,omitempty"`
}

type HarnessResult struct {
	Name           string
	Pkg            string
	Paths          int
	PathsReturned  int
	PathsPanicked  int
	PathsInfeasible int
	Unsupported    map[string]int
	UnwindFail     map[string]int
	Obligations    int
	Discharged     int
	Inconclusive   int
	InconclusiveAt map[string]int
	Violated       int
	Instrs         int
	Covers         map[string]int
	CoverDeclared  []string
	Findings       []*Finding
	Funcs          map[string]int
	Intrinsics     map[string]int
	Assumptions    map[string]int
	Samples        []string
	Solver         SolverStats
	Wall           time.Duration
	BudgetHit      bool
	Params         map[string]int
}

func newResult(name, pkg string) *HarnessResult {
	return &HarnessResult{Name: name, Pkg: pkg, Unsupported: map[string]int{}, UnwindFail: map[string]int{},
		InconclusiveAt: map[string]int{}, Covers: map[string]int{}, Funcs: map[string]int{}, Intrinsics: map[string]int{}, Assumptions: map[string]int{}}
}

type unsupported struct{ msg string }

func unsup(format string, a ...any) {
	panic(unsupported{fmt.Sprintf(format, a...)})
}

type Engine struct {
	prog    *ssa.Program
	fset    *token.FileSet
	sol     *Solver
	res     *HarnessResult
	cfg     *HarnessCfg
	nfresh  int
	maxFind int
	findKey map[string]bool
	deadline time.Time
	vpPkg   string
	initPkgs map[string]bool
	methCache map[string]*ssa.Function
	knownOpen map[string]bool
	lowerApps map[string]bool
	errStringPtr types.Type
	ufFacts   []*Term
	ufFactSet map[string]bool
	ipStrOrigin map[string]ipOrigin
	cutLines  map[string]bool
	noModel   map[string]bool
}

type HarnessCfg struct {
	Name      string         `json:"name"`
	Fn        string         `json:"fn"`
	Pkg       string         `json:"pkg"`
	Unwind    int            `json:"unwind"`
	Params    map[string]int `json:"params"`
	TimeoutS  int            `json:"timeout_s"`
	MaxInstrs int            `json:"max_instrs"`
	InitPkgs  []string       `json:"init_pkgs"`
	GoPolicy  string         `json:"go_policy"` // inline | skip
	Covers    []string       `json:"covers"`    // cover labels that must be reached
	MaxPaths  int            `json:"max_paths"`
	IncTimeoutMs   int       `json:"inc_timeout_ms"`
	FreshTimeoutMs int       `json:"fresh_timeout_ms"`
	Solver         string    `json:"solver"`
}

func (e *Engine) fresh(prefix string) string {
	e.nfresh++
	return fmt.Sprintf("%s!%d", sanitize(prefix), e.nfresh)
}

func sanitize(s string) string {
	var b strings.Builder
	for _, c := range s {
		if c >= 'a' && c <= 'z' || c >= 'A' && c <= 'Z' || c >= '0' && c <= '9' || c == '_' || c == '.' {
			b.WriteRune(c)
		} else {
			b.WriteByte('_')
		}
	}
	if b.Len() == 0 {
		return "v"
	}
	return b.String()
}

// name a large term by a fresh constant to keep terms flat
func (e *Engine) name(t *Term) *Term {
	if t.K || len(t.S) < 48 {
		return t
	}
	if t.Sort == SStr {
		// character vectors stay structural: naming them would pull the string theory into the context
		if _, ok := charVec(t); ok {
			return t
		}
	}
	n := e.fresh("t")
	e.sol.Declare(n, t.Sort)
	e.sol.Assert(&Term{S: "(= " + n + " " + t.S + ")", Sort: SBool})
	r := *t
	r.S = n
	return &r
}

func (e *Engine) freshVar(prefix string, s Sort) *Term {
	n := e.fresh(prefix)
	e.sol.Declare(n, s)
	return Var(n, s)
}

func (e *Engine) pos(in ssa.Instruction) string {
	p := e.fset.Position(in.Pos())
	if !p.IsValid() {
		// walk back for a position
		if in.Block() != nil {
			for _, x := range in.Block().Instrs {
				if q := e.fset.Position(x.Pos()); q.IsValid() {
					p = q
					if x == in {
						break
					}
				}
			}
		}
	}
	f := p.Filename
	if i := strings.Index(f, "/repo/"); i >= 0 {
		f = f[i+6:]
	} else if i := strings.LastIndex(f, "/src/"); i >= 0 {
		f = f[i+5:]
	}
	fn := ""
	if in.Parent() != nil {
		fn = in.Parent().String()
	}
	return fmt.Sprintf("%s:%d (%s)", f, p.Line, fn)
}

func sortedKeys(m map[string]int) []string {
	var k []string
	for x := range m {
		k = append(k, x)
	}
	sort.Strings(k)
	return k
}
