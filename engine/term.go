package main

// SMT terms with constant folding and light interval / known-bits tracking.

import (
	"fmt"
	"math/big"
	"strings"
)

type Sort int

const (
	SBool Sort = iota
	SInt
	SStr
	SReal
	SArr // (Array Int Int)
)

func (s Sort) smt() string {
	switch s {
	case SBool:
		return "Bool"
	case SInt:
		return "Int"
	case SStr:
		return "String"
	case SReal:
		return "Real"
	case SArr:
		return "(Array Int Int)"
	}
	panic("sort")
}

// Term is an SMT term; K marks a constant whose value is held in I/B/Str/R.
type Term struct {
	S    string
	Sort Sort
	K    bool
	I    *big.Int
	B    bool
	Str  string
	R    *big.Rat
	// Int facts (nil = unknown): Lo <= value <= Hi; low TZ bits are zero
	Lo, Hi *big.Int
	TZ     int
	// x + c decomposition (Add) and a cached length term for strings
	base    *Term
	off     *big.Int
	lenHint *Term
	parts   []*Term // operands of a string concatenation (kept for structural splitting)
	code    *Term   // str.from_code operand: this string is exactly one character (see cv.go)
}

func (t *Term) String() string { return t.S }

var (
	big0   = big.NewInt(0)
	big1   = big.NewInt(1)
	big255 = big.NewInt(255)
	// assumption: every slice/string length is < 2^48
	maxLen = new(big.Int).Lsh(big1, 48)
)

func pow2(k int) *big.Int { return new(big.Int).Lsh(big1, uint(k)) }

func smtInt(i *big.Int) string {
	if i.Sign() < 0 {
		return "(- " + new(big.Int).Neg(i).String() + ")"
	}
	return i.String()
}

func smtRat(r *big.Rat) string {
	neg := r.Sign() < 0
	a := new(big.Rat).Abs(r)
	var s string
	if a.IsInt() {
		s = a.Num().String() + ".0"
	} else {
		s = "(/ " + a.Num().String() + ".0 " + a.Denom().String() + ".0)"
	}
	if neg {
		return "(- " + s + ")"
	}
	return s
}

func smtStrLit(x string) string {
	var b strings.Builder
	b.WriteByte('"')
	for _, c := range []byte(x) {
		switch {
		case c == '"':
			b.WriteString(`""`)
		case c == '\\':
			b.WriteString(`\u{5c}`)
		case c >= 32 && c < 127:
			b.WriteByte(c)
		default:
			fmt.Fprintf(&b, "\\u{%x}", c)
		}
	}
	b.WriteByte('"')
	return b.String()
}

func trailingZeros(i *big.Int) int {
	if i.Sign() == 0 {
		return 64
	}
	return int(new(big.Int).Abs(i).TrailingZeroBits())
}

func KInt(i *big.Int) *Term {
	return &Term{S: smtInt(i), Sort: SInt, K: true, I: i, Lo: i, Hi: i, TZ: trailingZeros(i)}
}
func KInt64(i int64) *Term { return KInt(big.NewInt(i)) }
func KBool(b bool) *Term {
	if b {
		return tTrue
	}
	return tFalse
}
func KStr(s string) *Term   { return &Term{S: smtStrLit(s), Sort: SStr, K: true, Str: s} }
func KReal(r *big.Rat) *Term { return &Term{S: smtRat(r), Sort: SReal, K: true, R: r} }

var tTrue = &Term{S: "true", Sort: SBool, K: true, B: true}
var tFalse = &Term{S: "false", Sort: SBool, K: true, B: false}

func Var(name string, s Sort) *Term { return &Term{S: name, Sort: s} }

func IntVarR(name string, lo, hi *big.Int) *Term {
	return &Term{S: name, Sort: SInt, Lo: lo, Hi: hi}
}

func app(op string, args ...*Term) string {
	var b strings.Builder
	b.WriteByte('(')
	b.WriteString(op)
	for _, a := range args {
		b.WriteByte(' ')
		b.WriteString(a.S)
	}
	b.WriteByte(')')
	return b.String()
}

// ---------- booleans ----------

func Not(a *Term) *Term {
	if a.K {
		return KBool(!a.B)
	}
	if strings.HasPrefix(a.S, "(not ") {
		return &Term{S: a.S[5 : len(a.S)-1], Sort: SBool}
	}
	return &Term{S: "(not " + a.S + ")", Sort: SBool}
}

func And(ts ...*Term) *Term {
	var xs []*Term
	for _, t := range ts {
		if t.K {
			if !t.B {
				return tFalse
			}
			continue
		}
		xs = append(xs, t)
	}
	switch len(xs) {
	case 0:
		return tTrue
	case 1:
		return xs[0]
	}
	return &Term{S: app("and", xs...), Sort: SBool}
}

func Or(ts ...*Term) *Term {
	var xs []*Term
	for _, t := range ts {
		if t.K {
			if t.B {
				return tTrue
			}
			continue
		}
		xs = append(xs, t)
	}
	switch len(xs) {
	case 0:
		return tFalse
	case 1:
		return xs[0]
	}
	return &Term{S: app("or", xs...), Sort: SBool}
}

func Implies(a, b *Term) *Term { return Or(Not(a), b) }

func Ite(c, a, b *Term) *Term {
	if c.K {
		if c.B {
			return a
		}
		return b
	}
	if a.S == b.S {
		return a
	}
	t := &Term{S: app("ite", c, a, b), Sort: a.Sort}
	if a.Sort == SInt {
		if a.Lo != nil && b.Lo != nil {
			t.Lo = minBig(a.Lo, b.Lo)
		}
		if a.Hi != nil && b.Hi != nil {
			t.Hi = maxBig(a.Hi, b.Hi)
		}
		t.TZ = min(a.TZ, b.TZ)
	}
	if a.Sort == SBool {
		if a.K && b.K { // a != b here
			if a.B {
				return c
			}
			return Not(c)
		}
	}
	return t
}

func minBig(a, b *big.Int) *big.Int {
	if a.Cmp(b) < 0 {
		return a
	}
	return b
}
func maxBig(a, b *big.Int) *big.Int {
	if a.Cmp(b) > 0 {
		return a
	}
	return b
}

// ---------- comparisons ----------

func Eq(a, b *Term) *Term {
	if a.K && b.K {
		switch a.Sort {
		case SInt:
			return KBool(a.I.Cmp(b.I) == 0)
		case SBool:
			return KBool(a.B == b.B)
		case SStr:
			return KBool(a.Str == b.Str)
		case SReal:
			return KBool(a.R.Cmp(b.R) == 0)
		}
	}
	if a.S == b.S {
		return tTrue
	}
	if a.Sort == SInt {
		// disjoint intervals
		if a.Hi != nil && b.Lo != nil && a.Hi.Cmp(b.Lo) < 0 {
			return tFalse
		}
		if b.Hi != nil && a.Lo != nil && b.Hi.Cmp(a.Lo) < 0 {
			return tFalse
		}
	}
	if a.Sort == SStr {
		if ca, ok := charVec(a); ok {
			if cb, ok := charVec(b); ok {
				if len(ca) != len(cb) {
					return tFalse
				}
				cs := make([]*Term, len(ca))
				for i := range ca {
					cs[i] = Eq(ca[i].code(), cb[i].code())
				}
				return And(cs...)
			}
		}
	}
	if a.Sort == SBool {
		if a.K {
			if a.B {
				return b
			}
			return Not(b)
		}
		if b.K {
			if b.B {
				return a
			}
			return Not(a)
		}
	}
	return &Term{S: app("=", a, b), Sort: SBool}
}

func Lt(a, b *Term) *Term { return cmp("<", a, b) }
func Le(a, b *Term) *Term { return cmp("<=", a, b) }
func Gt(a, b *Term) *Term { return cmp("<", b, a) }
func Ge(a, b *Term) *Term { return cmp("<=", b, a) }

func cmp(op string, a, b *Term) *Term {
	if a.Sort == SInt {
		if a.K && b.K {
			c := a.I.Cmp(b.I)
			if op == "<" {
				return KBool(c < 0)
			}
			return KBool(c <= 0)
		}
		if a.Hi != nil && b.Lo != nil {
			c := a.Hi.Cmp(b.Lo)
			if op == "<" && c < 0 || op == "<=" && c <= 0 {
				return tTrue
			}
		}
		if a.Lo != nil && b.Hi != nil {
			c := a.Lo.Cmp(b.Hi)
			if op == "<" && c >= 0 || op == "<=" && c > 0 {
				return tFalse
			}
		}
	}
	if a.Sort == SReal && a.K && b.K {
		c := a.R.Cmp(b.R)
		if op == "<" {
			return KBool(c < 0)
		}
		return KBool(c <= 0)
	}
	if a.Sort == SStr {
		if a.K && b.K {
			if op == "<" {
				return KBool(a.Str < b.Str)
			}
			return KBool(a.Str <= b.Str)
		}
		return &Term{S: app("str."+op, a, b), Sort: SBool}
	}
	return &Term{S: app(op, a, b), Sort: SBool}
}

// ---------- mathematical integer arithmetic (no wrapping; see norm in exec) ----------

func addB(a, b *big.Int) *big.Int {
	if a == nil || b == nil {
		return nil
	}
	return new(big.Int).Add(a, b)
}
func subB(a, b *big.Int) *big.Int {
	if a == nil || b == nil {
		return nil
	}
	return new(big.Int).Sub(a, b)
}

func Add(a, b *Term) *Term {
	if a.K && b.K {
		return KInt(new(big.Int).Add(a.I, b.I))
	}
	if a.K && a.I.Sign() == 0 {
		return b
	}
	if b.K && b.I.Sign() == 0 {
		return a
	}
	// (+ (+ x c1) c2) -> (+ x c)
	if b.K && strings.HasPrefix(a.S, "(+ ") {
		if x, c, ok := splitAddConst(a); ok {
			r := Add(x, KInt(new(big.Int).Add(c, b.I)))
			return r
		}
	}
	t := &Term{S: app("+", a, b), Sort: SInt, Lo: addB(a.Lo, b.Lo), Hi: addB(a.Hi, b.Hi), TZ: min(a.TZ, b.TZ)}
	if b.K {
		t.base, t.off = a, b.I
	}
	return t
}

// remembered decomposition x + c for cheap re-association
func splitAddConst(t *Term) (*Term, *big.Int, bool) {
	if t.base != nil {
		return t.base, t.off, true
	}
	return nil, nil, false
}

func Sub(a, b *Term) *Term {
	if a.K && b.K {
		return KInt(new(big.Int).Sub(a.I, b.I))
	}
	if b.K {
		return Add(a, KInt(new(big.Int).Neg(b.I)))
	}
	if a.S == b.S {
		return KInt64(0)
	}
	// (x + c) - x
	if a.base != nil && a.base.S == b.S {
		return KInt(a.off)
	}
	if a.base != nil && b.base != nil && a.base.S == b.base.S {
		return KInt(new(big.Int).Sub(a.off, b.off))
	}
	return &Term{S: app("-", a, b), Sort: SInt, Lo: subB(a.Lo, b.Hi), Hi: subB(a.Hi, b.Lo), TZ: min(a.TZ, b.TZ)}
}

func Neg(a *Term) *Term { return Sub(KInt64(0), a) }

func mulRange(a, b *Term) (lo, hi *big.Int) {
	if a.Lo == nil || a.Hi == nil || b.Lo == nil || b.Hi == nil {
		return nil, nil
	}
	c := []*big.Int{
		new(big.Int).Mul(a.Lo, b.Lo), new(big.Int).Mul(a.Lo, b.Hi),
		new(big.Int).Mul(a.Hi, b.Lo), new(big.Int).Mul(a.Hi, b.Hi)}
	lo, hi = c[0], c[0]
	for _, x := range c[1:] {
		lo, hi = minBig(lo, x), maxBig(hi, x)
	}
	return
}

func Mul(a, b *Term) *Term {
	if a.K && b.K {
		return KInt(new(big.Int).Mul(a.I, b.I))
	}
	if a.K {
		a, b = b, a
	}
	if b.K {
		if b.I.Sign() == 0 {
			return KInt64(0)
		}
		if b.I.Cmp(big1) == 0 {
			return a
		}
	}
	lo, hi := mulRange(a, b)
	tz := a.TZ + b.TZ
	if tz > 64 {
		tz = 64
	}
	return &Term{S: app("*", a, b), Sort: SInt, Lo: lo, Hi: hi, TZ: tz}
}

// floor division / modulo by a positive constant (SMT div/mod semantics)
func DivK(a *Term, k *big.Int) *Term {
	if k.Sign() <= 0 {
		panic("DivK nonpositive")
	}
	if k.Cmp(big1) == 0 {
		return a
	}
	if a.K {
		q, _ := new(big.Int).DivMod(a.I, k, new(big.Int)) // Euclidean == floor for k>0
		return KInt(q)
	}
	t := &Term{S: "(div " + a.S + " " + k.String() + ")", Sort: SInt}
	if a.Lo != nil {
		q, _ := new(big.Int).DivMod(a.Lo, k, new(big.Int))
		t.Lo = q
	}
	if a.Hi != nil {
		q, _ := new(big.Int).DivMod(a.Hi, k, new(big.Int))
		t.Hi = q
	}
	if a.Lo != nil && a.Hi != nil && t.Lo.Cmp(t.Hi) == 0 {
		return KInt(t.Lo)
	}
	// known bits: dividing by 2^j reduces trailing zeros
	if j := trailingZeros(k); pow2(j).Cmp(k) == 0 && a.TZ > j {
		t.TZ = a.TZ - j
	}
	return t
}

func ModK(a *Term, k *big.Int) *Term {
	if k.Sign() <= 0 {
		panic("ModK nonpositive")
	}
	if k.Cmp(big1) == 0 {
		return KInt64(0)
	}
	if a.K {
		_, m := new(big.Int).DivMod(a.I, k, new(big.Int))
		return KInt(m)
	}
	if a.Lo != nil && a.Hi != nil && a.Lo.Sign() >= 0 && a.Hi.Cmp(k) < 0 {
		return a
	}
	// low bits all zero?
	if j := trailingZeros(k); pow2(j).Cmp(k) == 0 && a.TZ >= j {
		return KInt64(0)
	}
	t := &Term{S: "(mod " + a.S + " " + k.String() + ")", Sort: SInt, Lo: big0, Hi: new(big.Int).Sub(k, big1)}
	if j := trailingZeros(k); pow2(j).Cmp(k) == 0 {
		t.TZ = min(a.TZ, j)
	}
	return t
}

// general div/mod (SMT semantics), b symbolic
func DivT(a, b *Term) *Term {
	if b.K && b.I.Sign() > 0 {
		return DivK(a, b.I)
	}
	return &Term{S: app("div", a, b), Sort: SInt}
}
func ModT(a, b *Term) *Term {
	if b.K && b.I.Sign() > 0 {
		return ModK(a, b.I)
	}
	t := &Term{S: app("mod", a, b), Sort: SInt, Lo: big0}
	if b.Hi != nil && b.Lo != nil && b.Lo.Sign() > 0 {
		t.Hi = new(big.Int).Sub(b.Hi, big1)
	}
	return t
}

// bit length bound of a non-negative term, or -1
func (t *Term) bitsBound() int {
	if t.Lo == nil || t.Hi == nil || t.Lo.Sign() < 0 {
		return -1
	}
	return t.Hi.BitLen()
}

// ---------- strings ----------

func StrLen(s *Term) *Term {
	if s.K {
		return KInt64(int64(len(s.Str)))
	}
	if s.lenHint != nil {
		return s.lenHint
	}
	if cv, ok := charVec(s); ok {
		return KInt64(int64(len(cv)))
	}
	return &Term{S: "(str.len " + s.S + ")", Sort: SInt, Lo: big0, Hi: maxLen}
}

func Concat(ts ...*Term) *Term {
	var xs []*Term
	for _, t := range ts {
		if t.K && t.Str == "" {
			continue
		}
		if n := len(xs); n > 0 && xs[n-1].K && t.K {
			xs[n-1] = KStr(xs[n-1].Str + t.Str)
			continue
		}
		xs = append(xs, t)
	}
	switch len(xs) {
	case 0:
		return KStr("")
	case 1:
		return xs[0]
	}
	var flat []*Term
	for _, x := range xs {
		if x.parts != nil {
			flat = append(flat, x.parts...)
		} else {
			flat = append(flat, x)
		}
	}
	return &Term{S: app("str.++", xs...), Sort: SStr, parts: flat}
}

func Substr(s, off, n *Term) *Term {
	if s.K && off.K && n.K {
		o, l := int(off.I.Int64()), int(n.I.Int64())
		if o >= 0 && l >= 0 && o+l <= len(s.Str) {
			return KStr(s.Str[o : o+l])
		}
	}
	if off.K && off.I.Sign() == 0 && n.S == StrLen(s).S {
		return s
	}
	if off.K && n.K && !s.K {
		if cv, ok := charVec(s); ok {
			o, l := int(off.I.Int64()), int(n.I.Int64())
			if o >= 0 && l >= 0 && o+l <= len(cv) {
				return cvTerm(cv[o : o+l])
			}
		}
	}
	t := &Term{S: app("str.substr", s, off, n), Sort: SStr}
	return t
}

func StrAtCode(s, i *Term) *Term {
	if s.K && i.K {
		idx := int(i.I.Int64())
		if idx >= 0 && idx < len(s.Str) {
			return KInt64(int64(s.Str[idx]))
		}
	}
	if i.K && !s.K {
		if cv, ok := charVec(s); ok {
			if idx := int(i.I.Int64()); idx >= 0 && idx < len(cv) {
				return cv[idx].code()
			}
		}
	}
	return &Term{S: "(str.to_code (str.at " + s.S + " " + i.S + "))", Sort: SInt, Lo: big0, Hi: big255}
}

func StrFromCode(c *Term) *Term {
	if c.K {
		return KStr(string([]byte{byte(c.I.Int64())}))
	}
	return &Term{S: "(str.from_code " + c.S + ")", Sort: SStr, code: c}
}

func StrPrefixOf(p, s *Term) *Term {
	if p.K && s.K {
		return KBool(strings.HasPrefix(s.Str, p.Str))
	}
	if p.K && p.Str == "" {
		return tTrue
	}
	if p.K {
		if cv, ok := charVec(s); ok {
			if len(p.Str) > len(cv) {
				return tFalse
			}
			return Eq(p, cvTerm(cv[:len(p.Str)]))
		}
	}
	return &Term{S: app("str.prefixof", p, s), Sort: SBool}
}
func StrSuffixOf(p, s *Term) *Term {
	if p.K && s.K {
		return KBool(strings.HasSuffix(s.Str, p.Str))
	}
	if p.K && p.Str == "" {
		return tTrue
	}
	if p.K {
		if cv, ok := charVec(s); ok {
			if len(p.Str) > len(cv) {
				return tFalse
			}
			return Eq(p, cvTerm(cv[len(cv)-len(p.Str):]))
		}
	}
	return &Term{S: app("str.suffixof", p, s), Sort: SBool}
}
func StrContains(s, sub *Term) *Term {
	if sub.K && s.K {
		return KBool(strings.Contains(s.Str, sub.Str))
	}
	if sub.K && sub.Str == "" {
		return tTrue
	}
	if sub.K {
		if cv, ok := charVec(s); ok {
			var alts []*Term
			for i := 0; i+len(sub.Str) <= len(cv); i++ {
				alts = append(alts, Eq(sub, cvTerm(cv[i:i+len(sub.Str)])))
			}
			if len(alts) == 0 {
				return tFalse
			}
			return Or(alts...)
		}
	}
	return &Term{S: app("str.contains", s, sub), Sort: SBool}
}
func StrIndexOf(s, sub, from *Term) *Term {
	if s.K && sub.K && from.K && from.I.Sign() == 0 {
		return KInt64(int64(strings.Index(s.Str, sub.Str)))
	}
	return &Term{S: app("str.indexof", s, sub, from), Sort: SInt, Lo: big.NewInt(-1), Hi: maxLen}
}
func StrReplace(s, a, b *Term) *Term {
	if s.K && a.K && b.K {
		return KStr(strings.Replace(s.Str, a.Str, b.Str, 1))
	}
	return &Term{S: app("str.replace", s, a, b), Sort: SStr}
}
func StrReplaceAll(s, a, b *Term) *Term {
	if s.K && a.K && b.K {
		return KStr(strings.ReplaceAll(s.Str, a.Str, b.Str))
	}
	return &Term{S: app("str.replace_all", s, a, b), Sort: SStr}
}

// ---------- reals ----------

func RAdd(a, b *Term) *Term {
	if a.K && b.K {
		return KReal(new(big.Rat).Add(a.R, b.R))
	}
	return &Term{S: app("+", a, b), Sort: SReal}
}
func RSub(a, b *Term) *Term {
	if a.K && b.K {
		return KReal(new(big.Rat).Sub(a.R, b.R))
	}
	return &Term{S: app("-", a, b), Sort: SReal}
}
func RMul(a, b *Term) *Term {
	if a.K && b.K {
		return KReal(new(big.Rat).Mul(a.R, b.R))
	}
	return &Term{S: app("*", a, b), Sort: SReal}
}
func RDiv(a, b *Term) *Term {
	if a.K && b.K && b.R.Sign() != 0 {
		return KReal(new(big.Rat).Quo(a.R, b.R))
	}
	return &Term{S: app("/", a, b), Sort: SReal}
}
func ToReal(a *Term) *Term {
	if a.K {
		return KReal(new(big.Rat).SetInt(a.I))
	}
	return &Term{S: "(to_real " + a.S + ")", Sort: SReal}
}

// floor
func ToIntFloor(a *Term) *Term {
	if a.K {
		n := new(big.Int).Div(a.R.Num(), a.R.Denom()) // Euclidean: floor for positive denom
		return KInt(n)
	}
	return &Term{S: "(to_int " + a.S + ")", Sort: SInt}
}

// ---------- arrays ----------

func Select(a, i *Term) *Term {
	return &Term{S: app("select", a, i), Sort: SInt}
}
func StoreT(a, i, v *Term) *Term {
	return &Term{S: app("store", a, i, v), Sort: SArr}
}
