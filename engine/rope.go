package main

// bytes.Buffer / strings.Builder modelled as a rope of string segments.

import (
	"fmt"
	"go/types"
)

type RopeVal struct{ Segs []Value }

func ptrKey(p PtrVal) string {
	s := fmt.Sprintf("#%d", p.Obj)
	for _, pe := range p.Path {
		if pe.Idx != nil {
			s += "[" + pe.Idx.S + "]"
		} else {
			s += fmt.Sprintf(".%d", pe.Field)
		}
	}
	return s
}

func (e *Engine) rope(st *State, recv Value) (string, RopeVal) {
	p, ok := recv.(PtrVal)
	if !ok || p.Obj == 0 {
		unsup("buffer method on %s", describe(recv))
	}
	k := "rope" + ptrKey(p)
	r, _ := st.side[k].(RopeVal)
	return k, r
}

func (e *Engine) ropeLen(st *State, r RopeVal) *Term {
	var n *Term = KInt64(0)
	for _, s := range r.Segs {
		n = Add(n, e.strLen(st, s))
	}
	return e.name(n)
}

func (e *Engine) ropeString(st *State, r RopeVal) Value {
	switch len(r.Segs) {
	case 0:
		return KStr("")
	case 1:
		return r.Segs[0]
	}
	parts := make([]*Term, len(r.Segs))
	for i, s := range r.Segs {
		parts[i] = e.toSMTString(st, s)
	}
	return e.name(Concat(parts...))
}

// snapshot a byte slice as an immutable string view
func (e *Engine) snapshotBytes(st *State, s SliceVal) Value {
	if s.Obj == 0 {
		return KStr("")
	}
	o := st.heap[s.Obj]
	id := st.newObj(o.V, o.T)
	return StrBytes{Obj: id, Off: s.Off, Len: s.Len}
}

func (e *Engine) ropeBytes(st *State, r RopeVal) Value {
	// all segments with concrete length: build a concrete vector
	allK := true
	total := 0
	for _, s := range r.Segs {
		switch x := s.(type) {
		case *Term:
			if !x.K {
				allK = false
			} else {
				total += len(x.Str)
			}
		case StrBytes:
			if !x.Len.K || !x.Off.K {
				allK = false
			} else {
				total += int(x.Len.I.Int64())
			}
		}
	}
	u8 := types.Typ[types.Uint8]
	if allK && total <= maxConcArr {
		cv := make([]*Term, 0, total)
		for _, s := range r.Segs {
			switch x := s.(type) {
			case *Term:
				for i := 0; i < len(x.Str); i++ {
					cv = append(cv, KInt64(int64(x.Str[i])))
				}
			case StrBytes:
				if x.Obj == 0 {
					continue
				}
				arr := e.backing(st, x.Obj).(SymArrVal)
				for i := int64(0); i < x.Len.I.Int64(); i++ {
					cv = append(cv, e.selectArr(arr, Add(x.Off, KInt64(i))).(*Term))
				}
			}
		}
		ln := KInt64(int64(total))
		id := st.newObj(SymArrVal{N: ln, Elem: u8, C: cv}, nil)
		return SliceVal{Obj: id, Off: KInt64(0), Len: ln, Cap: ln}
	}
	if len(r.Segs) == 1 {
		if sb, ok := r.Segs[0].(StrBytes); ok {
			return e.stringToBytes(st, sb, u8, false)
		}
	}
	return e.stringToBytes(st, e.toSMTString(st, e.ropeString(st, r)), u8, false)
}

func init() {
	write := func(seg func(e *Engine, st *State, c *callCtx) Value, results int) intrinsic {
		return func(e *Engine, st *State, c *callCtx) bool {
			k, r := e.rope(st, c.args[0])
			s := seg(e, st, c)
			nr := RopeVal{Segs: append(append([]Value(nil), r.Segs...), s)}
			st.side[k] = nr
			switch results {
			case 0:
				c.ret(st, nil)
			case 1:
				c.ret(st, IfaceVal{})
			default:
				c.ret(st, TupleVal{e.strLen(st, s), IfaceVal{}})
			}
			return true
		}
	}
	segBytes := func(e *Engine, st *State, c *callCtx) Value { return e.snapshotBytes(st, c.args[1].(SliceVal)) }
	segStr := func(e *Engine, st *State, c *callCtx) Value { return c.args[1] }
	segByte := func(e *Engine, st *State, c *callCtx) Value { return StrFromCode(c.term(1)) }
	segRune := func(e *Engine, st *State, c *callCtx) Value {
		r := c.term(1)
		if r.K {
			return KStr(string(rune(r.I.Int64())))
		}
		e.res.Assumptions["WriteRune: rune is ASCII"]++
		e.sol.Assert(And(Le(KInt64(0), r), Lt(r, KInt64(128))))
		return StrFromCode(r)
	}
	for _, t := range []string{"(*bytes.Buffer)", "(*strings.Builder)"} {
		reg(t+".Write", write(segBytes, 2))
		reg(t+".WriteString", write(segStr, 2))
		reg(t+".WriteByte", write(segByte, 1))
		reg(t+".WriteRune", write(segRune, 2))
		reg(t+".Len", func(e *Engine, st *State, c *callCtx) bool {
			_, r := e.rope(st, c.args[0])
			c.ret(st, e.ropeLen(st, r))
			return true
		})
		reg(t+".String", func(e *Engine, st *State, c *callCtx) bool {
			if p, ok := c.args[0].(PtrVal); ok && p.Obj == 0 {
				c.ret(st, KStr("<nil>"))
				return true
			}
			_, r := e.rope(st, c.args[0])
			c.ret(st, e.ropeString(st, r))
			return true
		})
		reg(t+".Reset", func(e *Engine, st *State, c *callCtx) bool {
			k, _ := e.rope(st, c.args[0])
			st.side[k] = RopeVal{}
			c.ret(st, nil)
			return true
		})
		reg(t+".Grow", func(e *Engine, st *State, c *callCtx) bool {
			c.ret(st, nil)
			return true
		})
	}
	reg("(*bytes.Buffer).Bytes", func(e *Engine, st *State, c *callCtx) bool {
		_, r := e.rope(st, c.args[0])
		c.ret(st, e.ropeBytes(st, r))
		return true
	})
	reg("bytes.NewBuffer", func(e *Engine, st *State, c *callCtx) bool {
		bt := c.fn.Signature.Results().At(0).Type().(*types.Pointer).Elem()
		id := st.newObj(zeroValue(bt), bt)
		p := PtrVal{Obj: id}
		sl := c.args[0].(SliceVal)
		if !(sl.Len.K && sl.Len.I.Sign() == 0) {
			st.side["rope"+ptrKey(p)] = RopeVal{Segs: []Value{e.snapshotBytes(st, sl)}}
		}
		c.ret(st, p)
		return true
	})
	reg("bytes.NewBufferString", func(e *Engine, st *State, c *callCtx) bool {
		bt := c.fn.Signature.Results().At(0).Type().(*types.Pointer).Elem()
		id := st.newObj(zeroValue(bt), bt)
		p := PtrVal{Obj: id}
		st.side["rope"+ptrKey(p)] = RopeVal{Segs: []Value{c.args[0]}}
		c.ret(st, p)
		return true
	})
}

// sync / sync/atomic primitives as plain cell operations (single-threaded execution)
func init() {
	noop := func(e *Engine, st *State, c *callCtx) bool { c.ret(st, nil); return true }
	for _, n := range []string{"(*sync.Mutex).Lock", "(*sync.Mutex).Unlock", "(*sync.RWMutex).Lock", "(*sync.RWMutex).Unlock",
		"(*sync.RWMutex).RLock", "(*sync.RWMutex).RUnlock", "(*sync.WaitGroup).Add", "(*sync.WaitGroup).Done", "(*sync.WaitGroup).Wait",
		"(*sync.Pool).Put", "runtime.Gosched", "runtime.KeepAlive", "runtime.SetFinalizer"} {
		reg(n, noop)
	}
	reg("time.Sleep", func(e *Engine, st *State, c *callCtx) bool {
		cur, ok := st.ghost["clock"].(*Term)
		if !ok {
			cur = KInt64(0)
		}
		d := c.term(0)
		st.ghost["clock"] = e.name(Add(cur, Ite(Gt(d, KInt64(0)), d, KInt64(0))))
		c.ret(st, nil)
		return true
	})
	reg("(*sync.Mutex).TryLock", func(e *Engine, st *State, c *callCtx) bool { c.ret(st, tTrue); return true })
	ptr := func(c *callCtx) PtrVal {
		p, ok := c.args[0].(PtrVal)
		if !ok || p.Obj == 0 {
			unsup("atomic operation on %s", describe(c.args[0]))
		}
		return p
	}
	for _, w := range []string{"Int32", "Int64", "Uint32", "Uint64", "Uintptr"} {
		w := w
		reg("sync/atomic.Load"+w, func(e *Engine, st *State, c *callCtx) bool { c.ret(st, e.load(st, ptr(c))); return true })
		reg("sync/atomic.Store"+w, func(e *Engine, st *State, c *callCtx) bool { e.store(st, ptr(c), c.args[1]); c.ret(st, nil); return true })
		reg("sync/atomic.Add"+w, func(e *Engine, st *State, c *callCtx) bool {
			p := ptr(c)
			old := e.load(st, p).(*Term)
			t := c.fn.Signature.Results().At(0).Type()
			nv := e.norm(e.name(Add(old, c.term(1))), t)
			e.store(st, p, nv)
			c.ret(st, nv)
			return true
		})
		reg("sync/atomic.Swap"+w, func(e *Engine, st *State, c *callCtx) bool {
			p := ptr(c)
			old := e.load(st, p)
			e.store(st, p, c.args[1])
			c.ret(st, old)
			return true
		})
		reg("sync/atomic.CompareAndSwap"+w, func(e *Engine, st *State, c *callCtx) bool {
			p := ptr(c)
			old := e.load(st, p).(*Term)
			eq := Eq(old, c.term(1))
			return e.branch(st, []Alt{
				{Cond: eq, Do: func(s *State) { e.store(s, p, c.args[2]); c.ret(s, tTrue) }},
				{Cond: Not(eq), Do: func(s *State) { c.ret(s, tFalse) }},
			})
		})
	}
	// atomic.Value as a plain cell holding an interface
	reg("(*sync/atomic.Value).Load", func(e *Engine, st *State, c *callCtx) bool {
		v, ok := st.side["atomicValue"+ptrKey(ptr(c))]
		if !ok {
			v = IfaceVal{}
		}
		c.ret(st, v)
		return true
	})
	reg("(*sync/atomic.Value).Store", func(e *Engine, st *State, c *callCtx) bool {
		if iv, ok := c.args[1].(IfaceVal); ok && iv.T == nil {
			e.doPanic(st, OpaqueVal{"sync/atomic: store of nil value into Value"}, "panic atomic.Value.Store(nil)", "explicit")
			return true
		}
		st.side["atomicValue"+ptrKey(ptr(c))] = c.args[1]
		c.ret(st, nil)
		return true
	})
	reg("(*sync.Once).Do", func(e *Engine, st *State, c *callCtx) bool {
		k := "once" + ptrKey(ptr(c))
		if _, done := st.side[k]; done {
			c.ret(st, nil)
			return true
		}
		st.side[k] = tTrue
		return e.invoke(st, c.args[1].(FuncVal), nil, c.site, func(s *State, rv Value) { c.ret(s, nil) })
	})
	reg("(*sync.Pool).Get", func(e *Engine, st *State, c *callCtx) bool {
		// a pool may always be empty: call New
		pv := e.load(st, ptr(c)).(StructVal)
		pt := c.fn.Signature.Recv().Type().(*types.Pointer).Elem().Underlying().(*types.Struct)
		for i := 0; i < pt.NumFields(); i++ {
			if pt.Field(i).Name() == "New" {
				fv, ok := pv.F[i].(FuncVal)
				if !ok || (fv.Fn == nil && fv.Name == "") {
					c.ret(st, IfaceVal{})
					return true
				}
				return e.invoke(st, fv, nil, c.site, c.ret)
			}
		}
		c.ret(st, IfaceVal{})
		return true
	})
	// sync.Map as an association list
	smap := func(e *Engine, st *State, c *callCtx) (string, MapVal) {
		k := "syncmap" + ptrKey(ptr(c))
		m, ok := st.side[k].(MapVal)
		if !ok {
			id := st.newObj(nil, nil)
			st.heap[id].M = &MapObj{}
			m = MapVal{Obj: id}
			st.side[k] = m
		}
		return k, m
	}
	reg("(*sync.Map).Load", func(e *Engine, st *State, c *callCtx) bool {
		_, m := smap(e, st, c)
		return e.mapFind(st, m, c.args[1], nil, func(s *State, i int) {
			if i < 0 {
				c.ret(s, TupleVal{IfaceVal{}, tFalse})
			} else {
				c.ret(s, TupleVal{s.heap[m.Obj].M.E[i].V, tTrue})
			}
		})
	})
	reg("(*sync.Map).Store", func(e *Engine, st *State, c *callCtx) bool {
		_, m := smap(e, st, c)
		return e.mapFind(st, m, c.args[1], nil, func(s *State, i int) {
			e.mapSet(s, m, i, c.args[1], c.args[2])
			c.ret(s, nil)
		})
	})
	reg("(*sync.Map).Delete", func(e *Engine, st *State, c *callCtx) bool {
		_, m := smap(e, st, c)
		return e.mapFind(st, m, c.args[1], nil, func(s *State, i int) {
			if i >= 0 {
				e.mapDelete(s, m, i)
			}
			c.ret(s, nil)
		})
	})
}

// reflect.DeepEqual for the operand kinds fabio uses ([]string, strings, nil)
func init() {
	reg("reflect.DeepEqual", func(e *Engine, st *State, c *callCtx) bool {
		a, ok1 := c.args[0].(IfaceVal)
		b, ok2 := c.args[1].(IfaceVal)
		if !ok1 || !ok2 {
			unsup("reflect.DeepEqual on %s", describe(c.args[0]))
		}
		if a.T == nil || b.T == nil {
			c.ret(st, KBool(a.T == nil && b.T == nil))
			return true
		}
		if !types.Identical(a.T, b.T) {
			c.ret(st, tFalse)
			return true
		}
		sa, isA := a.V.(SliceVal)
		sb, isB := b.V.(SliceVal)
		if !isA || !isB {
			c.ret(st, e.equal(st, a.V, b.V, a.T))
			return true
		}
		if (sa.Obj == 0) != (sb.Obj == 0) {
			c.ret(st, tFalse)
			return true
		}
		if sa.Obj == 0 {
			c.ret(st, tTrue)
			return true
		}
		et := a.T.Underlying().(*types.Slice).Elem()
		return e.concretize(st, sa.Len, "DeepEqual len", func(s1 *State, n1 int) {
			e.concretize(s1, sb.Len, "DeepEqual len", func(s2 *State, n2 int) {
				if n1 != n2 {
					c.ret(s2, tFalse)
					return
				}
				if !sa.Off.K || !sb.Off.K {
					unsup("DeepEqual on slices with symbolic offset")
				}
				cs := []*Term{}
				for i := 0; i < n1; i++ {
					x := e.getElem(s2, e.backing(s2, sa.Obj), PathElem{Idx: KInt64(sa.Off.I.Int64() + int64(i))})
					y := e.getElem(s2, e.backing(s2, sb.Obj), PathElem{Idx: KInt64(sb.Off.I.Int64() + int64(i))})
					cs = append(cs, e.equal(s2, x, y, et))
				}
				c.ret(s2, And(cs...))
			})
		})
	})
}

// sort.Slice / sort.SliceStable: insertion sort driving the caller's less function
// (stable; any correct sort yields the same permutation up to elements less cannot distinguish)
func init() {
	sortSlice := func(e *Engine, st *State, c *callCtx) bool {
		iv, ok := c.args[0].(IfaceVal)
		if !ok || iv.T == nil {
			unsup("sort.Slice on %s", describe(c.args[0]))
		}
		sl, ok := iv.V.(SliceVal)
		if !ok {
			unsup("sort.Slice on non-slice")
		}
		less, ok := c.args[1].(FuncVal)
		if !ok {
			unsup("sort.Slice without less function")
		}
		if sl.Obj == 0 {
			c.ret(st, nil)
			return true
		}
		return e.concretize(st, sl.Len, "sort.Slice len", func(s0 *State, n int) {
			e.concretize(s0, sl.Off, "sort.Slice off", func(s1 *State, off int) {
				var step func(s *State, i, j int)
				step = func(s *State, i, j int) {
					if i >= n {
						c.ret(s, nil)
						return
					}
					if j == 0 {
						step(s, i+1, i+1)
						return
					}
					e.invoke(s, less, []Value{KInt64(int64(j)), KInt64(int64(j - 1))}, c.site, func(s2 *State, rv Value) {
						r, ok := rv.(*Term)
						if !ok {
							unsup("sort.Slice: less returned %s", describe(rv))
						}
						e.branch(s2, []Alt{
							{Cond: r, Tag: "less", Do: func(s3 *State) {
								o := s3.heap[sl.Obj]
								av, ok := o.V.(ArrayVal)
								if !ok {
									unsup("sort.Slice on integer slices")
								}
								ne := append([]Value(nil), av.E...)
								ne[off+j], ne[off+j-1] = ne[off+j-1], ne[off+j]
								s3.heap[sl.Obj] = &Obj{V: ArrayVal{E: ne}, T: o.T}
								step(s3, i, j-1)
							}},
							{Cond: Not(r), Tag: "!less", Do: func(s3 *State) { step(s3, i+1, i+1) }},
						})
					})
				}
				step(s1, 1, 1)
			})
		})
	}
	reg("sort.Slice", sortSlice)
	reg("sort.SliceStable", sortSlice)
}
