package main

import (
	"encoding/json"
	"flag"
	"fmt"
	"go/types"
	"os"
	"path/filepath"
	"sort"
	"strings"
	"sync"
	"time"

	"golang.org/x/tools/go/packages"
	"golang.org/x/tools/go/ssa"
	"golang.org/x/tools/go/ssa/ssautil"
)

const modPath = "github.com/fabiolb/fabio"

type TierCfg struct {
	Params         map[string]int `json:"params"`
	TimeoutS       int            `json:"timeout_s"`
	Unwind         int            `json:"unwind"`
	MaxPaths       int            `json:"max_paths"`
	Skip           bool           `json:"skip"`
	IncTimeoutMs   int            `json:"inc_timeout_ms"`
	FreshTimeoutMs int            `json:"fresh_timeout_ms"`
}

type HarnessSpec struct {
	Name      string   `json:"name"`
	Pkg       string   `json:"pkg"`
	Unwind    int      `json:"unwind"`
	GoPolicy  string   `json:"go_policy"`
	InitPkgs  []string `json:"init_pkgs"`
	Covers    []string `json:"covers"`
	MaxInstrs int      `json:"max_instrs"`
	Quick     TierCfg  `json:"quick"`
	Thorough  TierCfg  `json:"thorough"`
	What      string   `json:"what"`
	Solver    string   `json:"solver"` // "" (incremental first) | "fresh" (sliced fresh-context portfolio)
	Shards    int      `json:"shards"` // run n instances in parallel with params SHARD=i, NSHARDS=n
	ShardsThorough int `json:"shards_thorough"`
}

type Spec struct {
	Property    string        `json:"property"`
	Level       string        `json:"level"`
	Packages    []string      `json:"packages"`
	Harnesses   []HarnessSpec `json:"harnesses"`
	Assumptions []string      `json:"assumptions"`
	Bounds      string        `json:"bounds"`
	Outside     []string      `json:"outside_claim"`
}

var (
	repoDir  = "/repo"
	verifDir = "/verif"
)

func main() {
	if len(os.Args) < 2 {
		fmt.Fprintln(os.Stderr, "usage: symgo check <Cxx> [--tier quick|thorough] [--harness name] | symgo replay <file>")
		os.Exit(2)
	}
	if d := os.Getenv("VERIF_REPO"); d != "" {
		repoDir = d
	}
	if d := os.Getenv("VERIF_DIR"); d != "" {
		verifDir = d
	}
	switch os.Args[1] {
	case "check":
		fs := flag.NewFlagSet("check", flag.ExitOnError)
		tier := fs.String("tier", "quick", "quick|thorough")
		only := fs.String("harness", "", "run only this harness (comma separated)")
		noReplay := fs.Bool("no-replay", false, "skip native replay")
		verbose := fs.Bool("v", false, "verbose")
		mutant := fs.String("overlay-src", "", "file=replacement pairs (comma separated) applied on top of /repo (self-test mutants)")
		evOut := fs.String("evidence", "", "evidence output path (default /verif/evidence/<id>.json)")
		fs.Parse(os.Args[3:])
		if t := os.Getenv("VERIF_TIER"); t != "" && !flagSet(fs, "tier") {
			*tier = t
		}
		os.Exit(runCheck(os.Args[2], *tier, *only, !*noReplay, *verbose, *mutant, *evOut))
	case "replay":
		os.Exit(runReplayFile(os.Args[2]))
	default:
		fmt.Fprintln(os.Stderr, "unknown command", os.Args[1])
		os.Exit(2)
	}
}

func flagSet(fs *flag.FlagSet, name string) bool {
	found := false
	fs.Visit(func(f *flag.Flag) {
		if f.Name == name {
			found = true
		}
	})
	return found
}

// ---------- overlay ----------

// buildOverlay maps /repo/<pkg>/zz_vp_*.go to harness sources and adds the virtual vp package.
func buildOverlay(pkgs []string, extra string) (map[string][]byte, map[string]string, error) {
	ov := map[string][]byte{}
	files := map[string]string{} // virtual -> real path (for go test -overlay)
	add := func(virtual, real string) error {
		b, err := os.ReadFile(real)
		if err != nil {
			return err
		}
		ov[virtual] = b
		files[virtual] = real
		return nil
	}
	if err := add(filepath.Join(repoDir, "internal/vp/vp.go"), filepath.Join(verifDir, "harness/vp/vp.go")); err != nil {
		return nil, nil, err
	}
	for _, p := range pkgs {
		rel := strings.TrimPrefix(strings.TrimPrefix(p, modPath), "/")
		dir := filepath.Join(verifDir, "harness", "pkg", rel)
		if rel == "" {
			dir = filepath.Join(verifDir, "harness", "pkg", "_main")
		}
		ents, err := os.ReadDir(dir)
		if err != nil {
			continue
		}
		for _, en := range ents {
			if !strings.HasSuffix(en.Name(), ".go") {
				continue
			}
			if err := add(filepath.Join(repoDir, rel, "zz_vp_"+en.Name()), filepath.Join(dir, en.Name())); err != nil {
				return nil, nil, err
			}
		}
	}
	if extra != "" {
		for _, kv := range strings.Split(extra, ",") {
			p := strings.SplitN(kv, "=", 2)
			if len(p) != 2 {
				return nil, nil, fmt.Errorf("bad overlay-src %q", kv)
			}
			if err := add(filepath.Join(repoDir, p[0]), p[1]); err != nil {
				return nil, nil, err
			}
		}
	}
	return ov, files, nil
}

func loadProgram(pkgs []string, ov map[string][]byte) (*ssa.Program, []*packages.Package, error) {
	cfg := &packages.Config{
		Mode:       packages.LoadAllSyntax,
		Dir:        repoDir,
		BuildFlags: []string{"-tags=verif"},
		Overlay:    ov,
		Env:        append(os.Environ(), "GOFLAGS=-mod=mod", "GOPROXY=off"),
	}
	initial, err := packages.Load(cfg, pkgs...)
	if err != nil {
		return nil, nil, err
	}
	var errs []string
	packages.Visit(initial, nil, func(p *packages.Package) {
		for _, e := range p.Errors {
			if strings.HasPrefix(p.PkgPath, modPath) {
				errs = append(errs, e.Error())
			}
		}
	})
	if len(errs) > 0 {
		return nil, nil, fmt.Errorf("load errors:\n%s", strings.Join(errs, "\n"))
	}
	prog, _ := ssautil.AllPackages(initial, ssa.InstantiateGenerics)
	prog.Build()
	return prog, initial, nil
}

// ---------- running a property ----------

func loadSpec(id string) (*Spec, error) {
	b, err := os.ReadFile(filepath.Join(verifDir, "specs", id+".json"))
	if err != nil {
		return nil, err
	}
	var s Spec
	if err := json.Unmarshal(b, &s); err != nil {
		return nil, fmt.Errorf("spec %s: %v", id, err)
	}
	return &s, nil
}

type KnownFinding struct {
	ID       string `json:"id"`
	Property string `json:"property"`
	Status   string `json:"status"` // open | fixed
	Commit   string `json:"commit,omitempty"`
	What     string `json:"what"`
	Harness  string `json:"harness,omitempty"`
}

func loadKnown() []KnownFinding {
	b, err := os.ReadFile(filepath.Join(verifDir, "known_findings.json"))
	if err != nil {
		return nil
	}
	var f struct {
		Findings []KnownFinding `json:"findings"`
	}
	json.Unmarshal(b, &f)
	return f.Findings
}

func runCheck(id, tier, only string, replay, verbose bool, extraOv, evOut string) int {
	t0 := time.Now()
	spec, err := loadSpec(id)
	if err != nil {
		fmt.Println("ERROR:", err)
		return 2
	}
	seed := 0
	fmt.Sscan(os.Getenv("VERIF_SEED"), &seed)
	pkgset := map[string]bool{}
	for _, p := range spec.Packages {
		pkgset[p] = true
	}
	for _, h := range spec.Harnesses {
		pkgset[h.Pkg] = true
	}
	var pkgs []string
	for p := range pkgset {
		pkgs = append(pkgs, p)
	}
	sort.Strings(pkgs)
	ov, ovFiles, err := buildOverlay(pkgs, extraOv)
	if err != nil {
		fmt.Println("ERROR: overlay:", err)
		return 2
	}
	tl := time.Now()
	prog, _, err := loadProgram(pkgs, ov)
	if err != nil {
		fmt.Println("ERROR: cannot load /repo with harnesses (does the tree compile?):", err)
		return 2
	}
	loadDur := time.Since(tl)
	known := loadKnown()
	knownOpen := map[string]bool{}
	for _, k := range known {
		if k.Status == "open" {
			knownOpen[k.ID] = true
		}
	}
	onlySet := map[string]bool{}
	for _, n := range strings.Split(only, ",") {
		if n != "" {
			onlySet[n] = true
		}
	}

	var results []*HarnessResult
	var mu sync.Mutex
	var wg sync.WaitGroup
	sem := make(chan struct{}, 14)
	for _, h := range spec.Harnesses {
		if len(onlySet) > 0 && !onlySet[h.Name] {
			continue
		}
		tc := h.Quick
		if tier == "thorough" {
			tc = mergeTier(h.Quick, h.Thorough)
		}
		if tc.Skip {
			continue
		}
		cfg := &HarnessCfg{Name: h.Name, Pkg: h.Pkg, Unwind: h.Unwind, Params: tc.Params, TimeoutS: tc.TimeoutS,
			GoPolicy: h.GoPolicy, InitPkgs: h.InitPkgs, Covers: h.Covers, MaxInstrs: h.MaxInstrs, MaxPaths: tc.MaxPaths,
			IncTimeoutMs: tc.IncTimeoutMs, FreshTimeoutMs: tc.FreshTimeoutMs, Solver: h.Solver}
		if tc.Unwind > 0 {
			cfg.Unwind = tc.Unwind
		}
		if cfg.Unwind == 0 {
			cfg.Unwind = 32
		}
		if cfg.Params == nil {
			cfg.Params = map[string]int{}
		}
		if cfg.TimeoutS == 0 {
			cfg.TimeoutS = 300
		}
		if cfg.MaxInstrs == 0 {
			cfg.MaxInstrs = 5_000_000
		}
		shards := h.Shards
		if tier == "thorough" && h.ShardsThorough > 0 {
			shards = h.ShardsThorough
		}
		var cfgs []*HarnessCfg
		if shards <= 1 {
			cfg.Fn = cfg.Name
			cfgs = []*HarnessCfg{cfg}
		}
		for i := 0; i < shards && shards > 1; i++ {
			c2 := *cfg
			c2.Fn = cfg.Name
			c2.Name = fmt.Sprintf("%s#%d", cfg.Name, i)
			c2.Params = map[string]int{"SHARD": i, "NSHARDS": shards}
			for k, v := range cfg.Params {
				c2.Params[k] = v
			}
			cfgs = append(cfgs, &c2)
		}
		for _, cfg := range cfgs {
		wg.Add(1)
		go func(cfg *HarnessCfg) {
			defer wg.Done()
			sem <- struct{}{}
			defer func() { <-sem }()
			r := runHarness(prog, cfg, knownOpen, verbose)
			mu.Lock()
			results = append(results, r)
			mu.Unlock()
		}(cfg)
		}
	}
	wg.Wait()
	sort.Slice(results, func(i, j int) bool { return results[i].Name < results[j].Name })

	// native replay of every candidate
	nReplays := 0
	var rp *replayer
	if replay {
		rp = newReplayer(ovFiles)
		defer rp.cleanup()
	}
	for _, r := range results {
		for _, f := range r.Findings {
			if f.Status != "candidate" {
				continue
			}
			if rp == nil {
				f.Status = "unreplayed"
				continue
			}
			nReplays++
			rp.replay(id, r.Pkg, f)
		}
	}

	return report(spec, id, tier, seed, results, known, knownOpen, nReplays, time.Since(t0), loadDur, evOut, verbose)
}

func mergeTier(q, t TierCfg) TierCfg {
	r := t
	if r.Params == nil {
		r.Params = q.Params
	} else {
		m := map[string]int{}
		for k, v := range q.Params {
			m[k] = v
		}
		for k, v := range t.Params {
			m[k] = v
		}
		r.Params = m
	}
	if r.TimeoutS == 0 {
		r.TimeoutS = q.TimeoutS
	}
	if r.Unwind == 0 {
		r.Unwind = q.Unwind
	}
	if r.MaxPaths == 0 {
		r.MaxPaths = q.MaxPaths
	}
	if r.IncTimeoutMs == 0 {
		r.IncTimeoutMs = q.IncTimeoutMs
	}
	if r.FreshTimeoutMs == 0 {
		r.FreshTimeoutMs = q.FreshTimeoutMs
	}
	return r
}

func findHarness(prog *ssa.Program, pkgPath, name string) *ssa.Function {
	for _, p := range prog.AllPackages() {
		if p.Pkg.Path() == pkgPath {
			return p.Func(name)
		}
	}
	return nil
}

func runHarness(prog *ssa.Program, cfg *HarnessCfg, knownOpen map[string]bool, verbose bool) (res *HarnessResult) {
	t0 := time.Now()
	res = newResult(cfg.Name, cfg.Pkg)
	res.Params = cfg.Params
	res.CoverDeclared = cfg.Covers
	fn := findHarness(prog, cfg.Pkg, cfg.Fn)
	if fn == nil {
		res.Unsupported["harness function not found: "+cfg.Pkg+"."+cfg.Name]++
		return res
	}
	inc, fr := cfg.IncTimeoutMs, cfg.FreshTimeoutMs
	if inc == 0 {
		inc = 2000
	}
	if fr == 0 {
		fr = 10000
	}
	sol := NewSolver(SolverCfg{IncTimeoutMs: inc, FreshTimeoutMs: fr})
	sol.Verbose = verbose
	sol.FreshOnly = cfg.Solver == "fresh"
	defer sol.Close()
	e := &Engine{prog: prog, fset: prog.Fset, sol: sol, res: res, cfg: cfg, maxFind: 12, findKey: map[string]bool{},
		vpPkg: modPath + "/internal/vp", methCache: map[string]*ssa.Function{}, knownOpen: knownOpen}
	e.deadline = t0.Add(time.Duration(cfg.TimeoutS) * time.Second)
	// hard watchdog: a solver call that does not come back is abandoned
	wdDone := make(chan struct{})
	defer close(wdDone)
	go func() {
		select {
		case <-wdDone:
		case <-time.After(time.Duration(cfg.TimeoutS+45) * time.Second):
			res.BudgetHit = true
			sol.Abandon()
		}
	}()
	defer func() {
		if r := recover(); r != nil {
			res.Unsupported[fmt.Sprintf("ENGINE PANIC: %v", r)]++
			if verbose {
				panic(r)
			}
		}
		res.Solver = sol.St
		res.Wall = time.Since(t0)
	}()
	if ep := prog.ImportedPackage("errors"); ep != nil {
		if t, ok := ep.Members["errorString"].(*ssa.Type); ok {
			e.errStringPtr = types.NewPointer(t.Type())
		}
	}
	sol.DeclareRaw("(declare-fun fn_lower (String) String)")
	sol.DeclareRaw("(declare-fun fn_upper (String) String)")
	e.ufFactSet = map[string]bool{}
	e.noModel = map[string]bool{}
	e.ipStrOrigin = map[string]ipOrigin{}
	e.declareUFs()
	st := &State{heap: map[int]*Obj{}, globals: map[*ssa.Global]int{}, side: map[string]Value{}, covers: map[string]bool{}, labelN: map[string]int{}, ghost: map[string]Value{}}
	e.initGlobals(st, fn.Pkg)
	st.fr = &Frame{fn: fn, blk: fn.Blocks[0], locals: map[ssa.Value]Value{}}
	sol.Push()
	e.run(st)
	sol.Pop()
	return res
}
