package main

// errors.Is / errors.As: the chain walk of package errors on concrete dynamic types. The real bodies go
// through internal/reflectlite (type comparability and assignability), which the executor does not model;
// these intrinsics do the same walk with go/types: identity or assignability at each link, then Unwrap.

import (
	"go/types"
)

func init() {
	method := func(e *Engine, t types.Type, name string) *types.Func {
		ms := e.prog.MethodSets.MethodSet(t)
		for i := 0; i < ms.Len(); i++ {
			if f, ok := ms.At(i).Obj().(*types.Func); ok && f.Name() == name {
				return f
			}
		}
		return nil
	}
	errorType := types.Universe.Lookup("error").Type()
	// unwrap calls cur.Unwrap() (single-error form) and continues with k; k(nil state...) is not used.
	unwrap := func(e *Engine, st *State, c *callCtx, cur IfaceVal, k func(s *State, next IfaceVal) bool, done func(s *State, found bool) bool) bool {
		m := method(e, cur.T, "Unwrap")
		if m == nil {
			return done(st, false)
		}
		sig := m.Type().(*types.Signature)
		if sig.Params().Len() != 0 || sig.Results().Len() != 1 || !types.Identical(sig.Results().At(0).Type(), errorType) {
			unsup("errors: Unwrap method of %s is not func() error", cur.T)
		}
		return e.invokeMethod(st, cur, m, nil, c.site, func(s2 *State, v Value) {
			nx, ok := v.(IfaceVal)
			if !ok {
				unsup("errors: Unwrap returned %s", describe(v))
			}
			if !k(s2, nx) {
				s2.consumed = true
			}
		})
	}
	reg("errors.Is", func(e *Engine, st *State, c *callCtx) bool {
		target, ok := c.args[1].(IfaceVal)
		if !ok {
			unsup("errors.Is target %s", describe(c.args[1]))
		}
		var step func(s *State, cur IfaceVal, depth int) bool
		step = func(s *State, cur IfaceVal, depth int) bool {
			if cur.T == nil {
				c.ret(s, KBool(target.T == nil))
				return true
			}
			if depth > 16 {
				unsup("errors.Is: chain longer than 16")
			}
			if target.T != nil && types.Identical(cur.T, target.T) {
				eq := e.equal(s, cur, target, errorType)
				if !eq.K {
					unsup("errors.Is: symbolic error identity")
				}
				if eq.B {
					c.ret(s, tTrue)
					return true
				}
			}
			if method(e, cur.T, "Is") != nil {
				unsup("errors.Is: %s has an Is method", cur.T)
			}
			return unwrap(e, s, c, cur, func(s2 *State, nx IfaceVal) bool { return step(s2, nx, depth+1) },
				func(s2 *State, _ bool) bool { c.ret(s2, tFalse); return true })
		}
		cur, ok := c.args[0].(IfaceVal)
		if !ok {
			unsup("errors.Is on %s", describe(c.args[0]))
		}
		return step(st, cur, 0)
	})
	reg("errors.As", func(e *Engine, st *State, c *callCtx) bool {
		tv, ok := c.args[1].(IfaceVal)
		if !ok || tv.T == nil {
			unsup("errors.As target %s", describe(c.args[1]))
		}
		pt, ok := tv.T.Underlying().(*types.Pointer)
		if !ok {
			unsup("errors.As target type %s", tv.T)
		}
		tp, ok := tv.V.(PtrVal)
		if !ok || tp.Obj == 0 {
			unsup("errors.As nil target")
		}
		want := pt.Elem()
		_, wantIface := want.Underlying().(*types.Interface)
		var step func(s *State, cur IfaceVal, depth int) bool
		step = func(s *State, cur IfaceVal, depth int) bool {
			if cur.T == nil {
				c.ret(s, tFalse)
				return true
			}
			if depth > 16 {
				unsup("errors.As: chain longer than 16")
			}
			if types.AssignableTo(cur.T, want) {
				if wantIface {
					e.store(s, tp, cur)
				} else {
					e.store(s, tp, cur.V)
				}
				c.ret(s, tTrue)
				return true
			}
			if method(e, cur.T, "As") != nil {
				unsup("errors.As: %s has an As method", cur.T)
			}
			return unwrap(e, s, c, cur, func(s2 *State, nx IfaceVal) bool { return step(s2, nx, depth+1) },
				func(s2 *State, _ bool) bool { c.ret(s2, tFalse); return true })
		}
		cur, ok := c.args[0].(IfaceVal)
		if !ok {
			unsup("errors.As on %s", describe(c.args[0]))
		}
		return step(st, cur, 0)
	})
}
