package main

// Character-vector strings: a string whose length is concrete and whose characters are either concrete
// ASCII bytes or symbolic character codes (Int terms). String library calls and regular expressions on
// such strings are executed structurally - position by position - and every test on a symbolic character
// is put to the solver under the path condition; a test the solver leaves open forks the path on it and
// the call is re-executed in both branches. Nothing is sampled: each fork is a partition of the character's
// value space and the solver decides every member of the partition at once.

import (
	"regexp/syntax"
	"strconv"
	"strings"
	"unicode"
)

type cvChar struct {
	b   byte
	sym *Term // non-nil: symbolic character code in [0,127]
}

// charVec flattens a string term into characters; ok is false when some operand has no concrete length.
func charVec(t *Term) ([]cvChar, bool) {
	if t == nil || t.Sort != SStr {
		return nil, false
	}
	var out []cvChar
	add := func(p *Term) bool {
		switch {
		case p.K:
			for i := 0; i < len(p.Str); i++ {
				if p.Str[i] >= 0x80 {
					return false
				}
				out = append(out, cvChar{b: p.Str[i]})
			}
			return true
		case p.code != nil:
			out = append(out, cvChar{sym: p.code})
			return true
		}
		return false
	}
	if t.parts != nil {
		for _, p := range t.parts {
			if !add(p) {
				return nil, false
			}
		}
		return out, true
	}
	if !add(t) {
		return nil, false
	}
	return out, true
}

// hasSym reports whether the vector has a symbolic character (otherwise the term is a constant anyway).
func cvHasSym(cv []cvChar) bool {
	for _, c := range cv {
		if c.sym != nil {
			return true
		}
	}
	return false
}

func cvTerm(cv []cvChar) *Term {
	var ts []*Term
	var run []byte
	flush := func() {
		if len(run) > 0 {
			ts = append(ts, KStr(string(run)))
			run = nil
		}
	}
	for _, c := range cv {
		if c.sym == nil {
			run = append(run, c.b)
			continue
		}
		flush()
		ts = append(ts, StrFromCode(c.sym))
	}
	flush()
	return Concat(ts...)
}

func (c cvChar) code() *Term {
	if c.sym != nil {
		return c.sym
	}
	return KInt64(int64(c.b))
}

// needFork unwinds a structural string operation that met a test the solver leaves open.
type needFork struct{ cond *Term }

// decide answers a test under the path condition, or unwinds with needFork.
func (e *Engine) decide(cond *Term) bool {
	if cond.K {
		return cond.B
	}
	if e.ask(cond) == "unsat" {
		return false
	}
	if e.ask(Not(cond)) == "unsat" {
		return true
	}
	panic(needFork{cond})
}

// forking wraps an intrinsic so that an open test forks the path and re-executes the call on both sides.
func forking(h intrinsic) intrinsic {
	var w intrinsic
	w = func(e *Engine, st *State, c *callCtx) (res bool) {
		defer func() {
			if r := recover(); r != nil {
				nf, ok := r.(needFork)
				if !ok {
					panic(r)
				}
				e.res.Assumptions["structural string operations fork the path on each character test the solver leaves open"]++
				redo := func(s2 *State) {
					if !w(e, s2, c) {
						s2.consumed = true
					}
				}
				res = e.branch(st, []Alt{
					{Cond: nf.cond, Tag: "chr:" + short(nf.cond.S), Do: redo},
					{Cond: Not(nf.cond), Tag: "chr:!" + short(nf.cond.S), Do: redo},
				})
			}
		}()
		return h(e, st, c)
	}
	return w
}

func short(s string) string {
	if len(s) > 40 {
		return s[:40]
	}
	return s
}

func isWsTerm(c *Term) *Term {
	return Or(Eq(c, KInt64(' ')), And(Le(KInt64(9), c), Le(c, KInt64(13))))
}

func (e *Engine) cvIs(c cvChar, b byte) bool {
	if c.sym == nil {
		return c.b == b
	}
	return e.decide(Eq(c.sym, KInt64(int64(b))))
}

func (e *Engine) cvIsWs(c cvChar) bool {
	if c.sym == nil {
		return c.b == ' ' || (c.b >= 9 && c.b <= 13)
	}
	return e.decide(isWsTerm(c.sym))
}

// cvEqAt: does sub occur at position i?
func (e *Engine) cvEqAt(cv []cvChar, i int, sub string) bool {
	if i < 0 || i+len(sub) > len(cv) {
		return false
	}
	for j := 0; j < len(sub); j++ {
		if !e.cvIs(cv[i+j], sub[j]) {
			return false
		}
	}
	return true
}

func (e *Engine) cvIndex(cv []cvChar, sub string) int {
	for i := 0; i+len(sub) <= len(cv); i++ {
		if e.cvEqAt(cv, i, sub) {
			return i
		}
	}
	return -1
}

func (e *Engine) cvLastIndex(cv []cvChar, sub string) int {
	for i := len(cv) - len(sub); i >= 0; i-- {
		if e.cvEqAt(cv, i, sub) {
			return i
		}
	}
	return -1
}

func (e *Engine) cvTrimSpace(cv []cvChar) []cvChar {
	for len(cv) > 0 && e.cvIsWs(cv[0]) {
		cv = cv[1:]
	}
	for len(cv) > 0 && e.cvIsWs(cv[len(cv)-1]) {
		cv = cv[:len(cv)-1]
	}
	return cv
}

func (e *Engine) cvSplit(cv []cvChar, sep string, n int) [][]cvChar {
	var out [][]cvChar
	for n < 0 || len(out) < n-1 {
		i := e.cvIndex(cv, sep)
		if i < 0 {
			break
		}
		out = append(out, cv[:i])
		cv = cv[i+len(sep):]
	}
	return append(out, cv)
}

func (e *Engine) cvFields(cv []cvChar) [][]cvChar {
	var out [][]cvChar
	start := -1
	for i, c := range cv {
		if e.cvIsWs(c) {
			if start >= 0 {
				out = append(out, cv[start:i])
				start = -1
			}
			continue
		}
		if start < 0 {
			start = i
		}
	}
	if start >= 0 {
		out = append(out, cv[start:])
	}
	return out
}

// cvQuote is strconv.Quote on a character vector (ASCII: printable characters stand for themselves).
func (e *Engine) cvQuote(cv []cvChar) []cvChar {
	out := []cvChar{{b: '"'}}
	for _, c := range cv {
		if c.sym == nil {
			q := strconv.Quote(string([]byte{c.b}))
			for i := 1; i < len(q)-1; i++ {
				out = append(out, cvChar{b: q[i]})
			}
			continue
		}
		switch {
		case e.decide(Eq(c.sym, KInt64('"'))):
			out = append(out, cvChar{b: '\\'}, cvChar{b: '"'})
		case e.decide(Eq(c.sym, KInt64('\\'))):
			out = append(out, cvChar{b: '\\'}, cvChar{b: '\\'})
		case e.decide(And(Le(KInt64(0x20), c.sym), Le(c.sym, KInt64(0x7e)))):
			out = append(out, c)
		default:
			// control characters: \a \b \f \n \r \t \v or \xNN - fork to the concrete value
			for v := 0; v < 0x80; v++ {
				if v >= 0x20 && v <= 0x7e {
					continue
				}
				if e.decide(Eq(c.sym, KInt64(int64(v)))) {
					q := strconv.Quote(string([]byte{byte(v)}))
					for i := 1; i < len(q)-1; i++ {
						out = append(out, cvChar{b: q[i]})
					}
					break
				}
			}
		}
	}
	return append(out, cvChar{b: '"'})
}

// cvToLower / cvToUpper map symbolic characters with an if-then-else term (no fork).
func (e *Engine) cvToLower(cv []cvChar) []cvChar {
	out := make([]cvChar, len(cv))
	for i, c := range cv {
		if c.sym == nil {
			out[i] = cvChar{b: strings.ToLower(string([]byte{c.b}))[0]}
			continue
		}
		up := And(Le(KInt64('A'), c.sym), Le(c.sym, KInt64('Z')))
		out[i] = cvChar{sym: e.name(Ite(up, Add(c.sym, KInt64(32)), c.sym))}
	}
	return out
}

func (e *Engine) cvToUpper(cv []cvChar) []cvChar {
	out := make([]cvChar, len(cv))
	for i, c := range cv {
		if c.sym == nil {
			out[i] = cvChar{b: strings.ToUpper(string([]byte{c.b}))[0]}
			continue
		}
		lo := And(Le(KInt64('a'), c.sym), Le(c.sym, KInt64('z')))
		out[i] = cvChar{sym: e.name(Ite(lo, Sub(c.sym, KInt64(32)), c.sym))}
	}
	return out
}

// cvGlob: gobwas/glob semantics without separators for patterns of literals, '*' (any sequence) and
// '?' (any one character); the result is a Boolean term over the symbolic characters (no fork).
func (e *Engine) cvGlob(pat string, cv []cvChar) *Term {
	memo := map[[2]int]*Term{}
	var m func(pi, si int) *Term
	m = func(pi, si int) *Term {
		k := [2]int{pi, si}
		if t, ok := memo[k]; ok {
			return t
		}
		var r *Term
		switch {
		case pi == len(pat):
			r = KBool(si == len(cv))
		case pat[pi] == '*':
			alts := []*Term{}
			for j := si; j <= len(cv); j++ {
				alts = append(alts, m(pi+1, j))
			}
			r = Or(alts...)
		case si == len(cv):
			r = tFalse
		case pat[pi] == '?':
			r = m(pi+1, si+1)
		default:
			r = And(Eq(cv[si].code(), KInt64(int64(pat[pi]))), m(pi+1, si+1))
		}
		memo[k] = r
		return r
	}
	return m(0, 0)
}

// ---------- regular expressions on character vectors ----------

// cvRegex runs the compiled program of a Go regular expression (leftmost-first semantics, as package
// regexp without Longest) over a character vector. It returns the capture positions or nil.
type cvMatcher struct {
	e       *Engine
	prog    *syntax.Prog
	in      []cvChar
	cap     []int
	visited map[[2]int]bool
}

func (e *Engine) cvRegex(pat string, cv []cvChar) ([]int, error) {
	re, err := syntax.Parse(pat, syntax.Perl)
	if err != nil {
		return nil, err
	}
	ncap := re.MaxCap()
	prog, err := syntax.Compile(re.Simplify())
	if err != nil {
		return nil, err
	}
	m := &cvMatcher{e: e, prog: prog, in: cv, visited: map[[2]int]bool{}}
	anchored := prog.StartCond()&syntax.EmptyBeginText != 0
	for start := 0; start <= len(cv); start++ {
		m.cap = make([]int, 2*(ncap+1))
		for i := range m.cap {
			m.cap[i] = -1
		}
		if m.try(uint32(prog.Start), start) {
			return m.cap, nil
		}
		if anchored {
			break
		}
	}
	return nil, nil
}

func isWordByte(b byte) bool {
	return b == '_' || (b >= '0' && b <= '9') || (b >= 'a' && b <= 'z') || (b >= 'A' && b <= 'Z')
}

func (m *cvMatcher) isWord(pos int) bool {
	if pos < 0 || pos >= len(m.in) {
		return false
	}
	c := m.in[pos]
	if c.sym == nil {
		return isWordByte(c.b)
	}
	s := c.sym
	rng := func(lo, hi byte) *Term { return And(Le(KInt64(int64(lo)), s), Le(s, KInt64(int64(hi)))) }
	return m.e.decide(Or(Eq(s, KInt64('_')), rng('0', '9'), rng('a', 'z'), rng('A', 'Z')))
}

func (m *cvMatcher) emptyOK(need syntax.EmptyOp, pos int) bool {
	n := len(m.in)
	if need&syntax.EmptyBeginText != 0 && pos != 0 {
		return false
	}
	if need&syntax.EmptyEndText != 0 && pos != n {
		return false
	}
	if need&syntax.EmptyBeginLine != 0 && pos != 0 && !m.e.cvIs(m.in[pos-1], '\n') {
		return false
	}
	if need&syntax.EmptyEndLine != 0 && pos != n && !m.e.cvIs(m.in[pos], '\n') {
		return false
	}
	if need&(syntax.EmptyWordBoundary|syntax.EmptyNoWordBoundary) != 0 {
		b := m.isWord(pos-1) != m.isWord(pos)
		if need&syntax.EmptyWordBoundary != 0 && !b {
			return false
		}
		if need&syntax.EmptyNoWordBoundary != 0 && b {
			return false
		}
	}
	return true
}

// runeCond is the condition "character code c is accepted by instruction i".
func runeCond(i *syntax.Inst, c *Term) *Term {
	switch i.Op {
	case syntax.InstRuneAny:
		return tTrue
	case syntax.InstRuneAnyNotNL:
		return Not(Eq(c, KInt64('\n')))
	}
	fold := syntax.Flags(i.Arg)&syntax.FoldCase != 0
	if len(i.Rune) == 1 {
		r0 := i.Rune[0]
		alts := []*Term{Eq(c, KInt64(int64(r0)))}
		if fold {
			for r1 := unicode.SimpleFold(r0); r1 != r0; r1 = unicode.SimpleFold(r1) {
				if r1 < 0x80 {
					alts = append(alts, Eq(c, KInt64(int64(r1))))
				}
			}
		}
		return Or(alts...)
	}
	var alts []*Term
	for j := 0; j+1 < len(i.Rune); j += 2 {
		lo, hi := i.Rune[j], i.Rune[j+1]
		if lo > 0x7f {
			continue
		}
		if hi > 0x7f {
			hi = 0x7f
		}
		if lo == hi {
			alts = append(alts, Eq(c, KInt64(int64(lo))))
		} else {
			alts = append(alts, And(Le(KInt64(int64(lo)), c), Le(c, KInt64(int64(hi)))))
		}
	}
	if len(alts) == 0 {
		return tFalse
	}
	return Or(alts...)
}

func (m *cvMatcher) try(pc uint32, pos int) bool {
	for {
		key := [2]int{int(pc), pos}
		i := &m.prog.Inst[pc]
		switch i.Op {
		case syntax.InstFail:
			return false
		case syntax.InstMatch:
			return true
		case syntax.InstNop:
			pc = i.Out
		case syntax.InstAlt, syntax.InstAltMatch:
			if m.visited[key] {
				return false
			}
			m.visited[key] = true
			saved := append([]int(nil), m.cap...)
			if m.try(i.Out, pos) {
				return true
			}
			copy(m.cap, saved)
			pc = i.Arg
		case syntax.InstCapture:
			if int(i.Arg) < len(m.cap) {
				old := m.cap[i.Arg]
				m.cap[i.Arg] = pos
				if m.try(i.Out, pos) {
					return true
				}
				m.cap[i.Arg] = old
				return false
			}
			pc = i.Out
		case syntax.InstEmptyWidth:
			if !m.emptyOK(syntax.EmptyOp(i.Arg), pos) {
				return false
			}
			pc = i.Out
		case syntax.InstRune, syntax.InstRune1, syntax.InstRuneAny, syntax.InstRuneAnyNotNL:
			if pos >= len(m.in) {
				return false
			}
			if m.visited[key] {
				return false
			}
			m.visited[key] = true
			c := m.in[pos]
			var ok bool
			if c.sym == nil {
				ok = i.MatchRune(rune(c.b))
			} else {
				ok = m.e.decide(runeCond(i, c.sym))
			}
			if !ok {
				return false
			}
			pc = i.Out
			pos++
		default:
			unsup("regexp instruction %v", i.Op)
		}
	}
}
