package main

// Contract-level models of net/http helpers used by fabio's handlers (table 2/3):
// http.Error, http.Redirect and httputil.ReverseProxy.ServeHTTP.

import (
	"go/types"
)

func structField(t types.Type, name string) int {
	st, ok := t.Underlying().(*types.Struct)
	if !ok {
		unsup("not a struct: %s", t)
	}
	for i := 0; i < st.NumFields(); i++ {
		if st.Field(i).Name() == name {
			return i
		}
	}
	unsup("no field %s in %s", name, t)
	return -1
}

func (e *Engine) fieldPtr(p PtrVal, t types.Type, name string) PtrVal {
	return PtrVal{Obj: p.Obj, Path: append(append([]PathElem(nil), p.Path...), PathElem{Field: structField(t, name)})}
}

// method lookup on an interface value by name
func (e *Engine) callMethod(st *State, recv Value, name string, args []Value, k func(*State, Value)) bool {
	iv, ok := recv.(IfaceVal)
	if !ok || iv.T == nil {
		e.doPanic(st, OpaqueVal{"nil interface method call"}, "nil-deref calling "+name, "nil")
		return true
	}
	ms := e.prog.MethodSets.MethodSet(iv.T)
	for i := 0; i < ms.Len(); i++ {
		sel := ms.At(i)
		if sel.Obj().Name() == name {
			fn := e.prog.MethodValue(sel)
			if fn == nil {
				break
			}
			return e.invoke(st, FuncVal{Fn: fn}, append([]Value{iv.V}, args...), nil, k)
		}
	}
	unsup("no method %s on %s", name, iv.T)
	return false
}

// header map helpers on the real map model (keys are canonical constants)
func (e *Engine) headerSet(st *State, hdr Value, key string, val *Term, k func(*State)) bool {
	m, ok := hdr.(MapVal)
	if !ok || m.Obj == 0 {
		unsup("Header() returned %s", describe(hdr))
	}
	el := []Value{val}
	id := st.newObj(ArrayVal{E: el}, nil)
	sl := SliceVal{Obj: id, Off: KInt64(0), Len: KInt64(1), Cap: KInt64(1)}
	return e.mapFind(st, m, KStr(key), types.Typ[types.String], func(s *State, i int) {
		e.mapSet(s, m, i, KStr(key), sl)
		k(s)
	})
}

func init() {
	// http.Error(w, msg, code): Content-Type text/plain, X-Content-Type-Options nosniff, status, body msg\n
	reg("net/http.Error", func(e *Engine, st *State, c *callCtx) bool {
		w, msg, code := c.args[0], e.toSMTString(st, c.args[1]), c.args[2]
		return e.callMethod(st, w, "Header", nil, func(s *State, h Value) {
			e.headerSet(s, h, "Content-Type", KStr("text/plain; charset=utf-8"), func(s2 *State) {
				e.headerSet(s2, h, "X-Content-Type-Options", KStr("nosniff"), func(s3 *State) {
					e.callMethod(s3, w, "WriteHeader", []Value{code}, func(s4 *State, _ Value) {
						body := e.stringToBytes(s4, e.name(Concat(msg, KStr("\n"))), types.Typ[types.Uint8], false)
						e.callMethod(s4, w, "Write", []Value{body}, func(s5 *State, _ Value) { c.ret(s5, nil) })
					})
				})
			})
		})
	})
	// http.Redirect(w, r, url, code): Location header (absolute URLs are used verbatim) and status
	reg("net/http.Redirect", func(e *Engine, st *State, c *callCtx) bool {
		w, u, code := c.args[0], e.toSMTString(st, c.args[2]), c.args[3]
		e.res.Assumptions["http.Redirect: sets Location to the given absolute URL and writes the status (body not modelled)"]++
		return e.callMethod(st, w, "Header", nil, func(s *State, h Value) {
			e.headerSet(s, h, "Location", u, func(s2 *State) {
				e.callMethod(s2, w, "WriteHeader", []Value{code}, func(s3 *State, _ Value) { c.ret(s3, nil) })
			})
		})
	})
	// (*httputil.ReverseProxy).ServeHTTP(rw, req): clone req, Director, X-Forwarded-For, RoundTrip,
	// then ErrorHandler or status+headers to rw
	reg("(*net/http/httputil.ReverseProxy).ServeHTTP", func(e *Engine, st *State, c *callCtx) bool {
		e.res.Assumptions["httputil.ReverseProxy.ServeHTTP: contract model (clone request, Director, append client IP to X-Forwarded-For, RoundTrip, ErrorHandler or copy status+headers); hop-by-hop header removal and body streaming not modelled"]++
		pp := c.args[0].(PtrVal)
		rpT := c.fn.Signature.Recv().Type().(*types.Pointer).Elem()
		rp := e.load(st, pp).(StructVal)
		director, _ := rp.F[structField(rpT, "Director")].(FuncVal)
		transport := rp.F[structField(rpT, "Transport")]
		errH, _ := rp.F[structField(rpT, "ErrorHandler")].(FuncVal)
		rw := c.args[1]
		reqP, ok := c.args[2].(PtrVal)
		if !ok || reqP.Obj == 0 {
			unsup("ReverseProxy.ServeHTTP with nil request")
		}
		reqT := c.fn.Signature.Params().At(1).Type().(*types.Pointer).Elem()
		req := e.load(st, reqP).(StructVal)
		// clone: header map and URL are copied
		nf := append([]Value(nil), req.F...)
		hi := structField(reqT, "Header")
		if hm, ok := nf[hi].(MapVal); ok && hm.Obj != 0 {
			o := st.heap[hm.Obj]
			id := st.newObj(nil, o.T)
			st.heap[id].M = &MapObj{E: append([]MapEntry(nil), o.M.E...)}
			nf[hi] = MapVal{Obj: id}
		} else {
			id := st.newObj(nil, nil)
			st.heap[id].M = &MapObj{}
			nf[hi] = MapVal{Obj: id}
		}
		ui := structField(reqT, "URL")
		if up, ok := nf[ui].(PtrVal); ok && up.Obj != 0 {
			o := st.heap[up.Obj]
			nf[ui] = PtrVal{Obj: st.newObj(e.load(st, up), o.T)}
		}
		outP := PtrVal{Obj: st.newObj(StructVal{F: nf}, reqT)}
		afterDirector := func(s *State, _ Value) {
			out := e.load(s, outP).(StructVal)
			hdr := out.F[hi].(MapVal)
			remote := e.toSMTString(s, out.F[structField(reqT, "RemoteAddr")])
			// X-Forwarded-For: prior values joined with ", " + client ip (when RemoteAddr splits)
			shp := e.ufCall(s, "splithostport", remote)
			finish := func(s2 *State) {
				e.callMethod(s2, transport, "RoundTrip", []Value{outP}, func(s3 *State, rv Value) {
					tv := rv.(TupleVal)
					if errv, ok := tv[1].(IfaceVal); ok && errv.T != nil {
						if errH.Fn == nil {
							e.callMethod(s3, rw, "WriteHeader", []Value{KInt64(502)}, func(s4 *State, _ Value) { c.ret(s4, nil) })
							return
						}
						e.invoke(s3, errH, []Value{rw, outP, errv}, nil, func(s4 *State, _ Value) { c.ret(s4, nil) })
						return
					}
					resP, ok := tv[0].(PtrVal)
					if !ok || resP.Obj == 0 {
						unsup("RoundTrip returned nil response and nil error")
					}
					resT := c.fn.Pkg.Prog.ImportedPackage("net/http").Type("Response").Type()
					res := e.load(s3, resP).(StructVal)
					status := res.F[structField(resT, "StatusCode")]
					rh, _ := res.F[structField(resT, "Header")].(MapVal)
					e.callMethod(s3, rw, "Header", nil, func(s4 *State, h Value) {
						dst, ok := h.(MapVal)
						if !ok || dst.Obj == 0 {
							unsup("ResponseWriter.Header() is nil")
						}
						var ents []MapEntry
						if rh.Obj != 0 {
							ents = s4.heap[rh.Obj].M.E
						}
						var copyAt func(s5 *State, i int)
						copyAt = func(s5 *State, i int) {
							if i >= len(ents) {
								e.callMethod(s5, rw, "WriteHeader", []Value{status}, func(s6 *State, _ Value) { c.ret(s6, nil) })
								return
							}
							en := ents[i]
							e.mapFind(s5, dst, en.K, types.Typ[types.String], func(s6 *State, j int) {
								e.mapSet(s6, dst, j, en.K, en.V)
								copyAt(s6, i+1)
							})
						}
						copyAt(s4, 0)
					})
				})
			}
			okT, host := shp[0], shp[1]
			e.branch(s, []Alt{
				{Cond: okT, Tag: "rp-clientip", Do: func(s2 *State) {
					e.mapFind(s2, hdr, KStr("X-Forwarded-For"), types.Typ[types.String], func(s3 *State, i int) {
						val := host
						if i >= 0 {
							prior := s3.heap[hdr.Obj].M.E[i].V.(SliceVal)
							if prior.Obj == 0 && !(prior.Len.K && prior.Len.I.Sign() > 0) {
								finish(s3) // explicitly nil: do not populate
								return
							}
							if !prior.Len.K || !prior.Off.K {
								unsup("symbolic X-Forwarded-For value count")
							}
							arr := e.backing(s3, prior.Obj).(ArrayVal)
							var parts []*Term
							for j := 0; j < int(prior.Len.I.Int64()); j++ {
								parts = append(parts, e.toSMTString(s3, arr.E[int(prior.Off.I.Int64())+j]), KStr(", "))
							}
							parts = append(parts, host)
							val = e.name(Concat(parts...))
						}
						id := s3.newObj(ArrayVal{E: []Value{val}}, nil)
						e.mapSet(s3, hdr, i, KStr("X-Forwarded-For"), SliceVal{Obj: id, Off: KInt64(0), Len: KInt64(1), Cap: KInt64(1)})
						finish(s3)
					})
				}},
				{Cond: Not(okT), Tag: "rp-noclientip", Do: finish},
			})
		}
		if director.Fn == nil {
			afterDirector(st, nil)
			return true
		}
		return e.invoke(st, director, []Value{outP}, nil, afterDirector)
	})
}

// compress/gzip as an identity codec: what is written to the gzip.Writer is passed to the
// destination unchanged; vp.Gunzip is the identity (natively the real codec is used).
func init() {
	gzDst := func(st *State, c *callCtx) (string, Value) {
		p, ok := c.args[0].(PtrVal)
		if !ok || p.Obj == 0 {
			unsup("gzip.Writer method on %s", describe(c.args[0]))
		}
		k := "gzipdst" + ptrKey(p)
		return k, st.side[k]
	}
	reg("compress/gzip.NewWriter", func(e *Engine, st *State, c *callCtx) bool {
		e.res.Assumptions["compress/gzip modelled as an identity codec"]++
		wt := c.fn.Signature.Results().At(0).Type().(*types.Pointer).Elem()
		p := PtrVal{Obj: st.newObj(zeroValue(wt), wt)}
		st.side["gzipdst"+ptrKey(p)] = c.args[0]
		c.ret(st, p)
		return true
	})
	reg("(*compress/gzip.Writer).Reset", func(e *Engine, st *State, c *callCtx) bool {
		k, _ := gzDst(st, c)
		st.side[k] = c.args[1]
		st.side[k+"closed"] = tFalse
		c.ret(st, nil)
		return true
	})
	reg("(*compress/gzip.Writer).Write", func(e *Engine, st *State, c *callCtx) bool {
		k, dst := gzDst(st, c)
		if cl, ok := st.side[k+"closed"].(*Term); ok && cl.K && cl.B {
			c.ret(st, TupleVal{KInt64(0), e.newError(st, KStr("gzip: write to closed writer"))})
			return true
		}
		return e.callMethod(st, dst, "Write", []Value{c.args[1]}, c.ret)
	})
	reg("(*compress/gzip.Writer).Close", func(e *Engine, st *State, c *callCtx) bool {
		k, _ := gzDst(st, c)
		st.side[k+"closed"] = tTrue
		c.ret(st, IfaceVal{})
		return true
	})
	reg("(*compress/gzip.Writer).Flush", func(e *Engine, st *State, c *callCtx) bool {
		c.ret(st, IfaceVal{})
		return true
	})
	reg("net/http.DetectContentType", func(e *Engine, st *State, c *callCtx) bool {
		c.ret(st, e.freshVar("detected", SStr))
		return true
	})
}

// net.Dial / net.DialTimeout: connections to the modelled upstream (vp.ModelDial)
func init() {
	dial := func(e *Engine, st *State, c *callCtx) bool {
		if _, ok := st.ghost["upstream"]; !ok {
			unsup("net.Dial without a modelled upstream (vp.UpstreamListen)")
		}
		e.res.Assumptions["net.Dial/DialTimeout connect to the modelled upstream (records writes, stays open until closed)"]++
		return e.invoke(st, FuncVal{Fn: e.vpFunc("ModelDial")}, []Value{c.args[0], c.args[1]}, c.site, c.ret)
	}
	reg("net.Dial", dial)
	reg("net.DialTimeout", dial)
}
