package main

// Structural (character-vector) versions of the string intrinsics: they take over when the string
// argument has a concrete length (see cv.go) and fall back to the SMT string theory otherwise.

import "regexp"

func init() {
	strSlice := func(s2 *State, parts [][]cvChar, emptyNonNil bool) Value {
		if len(parts) == 0 {
			if emptyNonNil {
				id := s2.newObj(ArrayVal{}, nil)
				return SliceVal{Obj: id, Off: KInt64(0), Len: KInt64(0), Cap: KInt64(0)}
			}
			return SliceVal{Off: KInt64(0), Len: KInt64(0), Cap: KInt64(0)}
		}
		el := make([]Value, len(parts))
		for i, p := range parts {
			el[i] = cvTerm(p)
		}
		id := s2.newObj(ArrayVal{E: el}, nil)
		n := KInt64(int64(len(el)))
		return SliceVal{Obj: id, Off: KInt64(0), Len: n, Cap: n}
	}
	// symCV returns the character vector of argument i when it is a non-constant fixed-length string.
	symCV := func(e *Engine, st *State, c *callCtx, i int) ([]cvChar, bool) {
		t, ok := c.args[i].(*Term)
		if !ok || t.Sort != SStr || t.K {
			return nil, false
		}
		return charVec(t)
	}
	kstr := func(c *callCtx, i int) (string, bool) {
		t, ok := c.args[i].(*Term)
		if !ok || !t.K || t.Sort != SStr {
			return "", false
		}
		return t.Str, true
	}
	wrap := func(name string, h func(e *Engine, st *State, c *callCtx) (handled bool)) {
		old := intrinsics[name]
		if old == nil {
			panic("zz_cvwire: no intrinsic " + name)
		}
		intrinsics[name] = forking(func(e *Engine, st *State, c *callCtx) bool {
			if h(e, st, c) {
				e.res.Intrinsics[name+" [structural]"]++
				return true
			}
			return old(e, st, c)
		})
	}
	// optional: structural when applicable, otherwise the real library body is executed
	optional := func(name string, h func(e *Engine, st *State, c *callCtx) (handled bool)) {
		if intrinsics[name] != nil {
			panic("zz_cvwire: " + name + " already registered")
		}
		intrinsics[name] = forking(func(e *Engine, st *State, c *callCtx) bool {
			if h(e, st, c) {
				e.res.Intrinsics[name+" [structural]"]++
				return true
			}
			c.declined = true
			return true
		})
	}
	anyOf := func(e *Engine, cv []cvChar, set string) int {
		for i, ch := range cv {
			for j := 0; j < len(set); j++ {
				if e.cvIs(ch, set[j]) {
					return i
				}
			}
		}
		return -1
	}
	inSet := func(e *Engine, ch cvChar, set string) bool {
		if ch.sym == nil {
			for j := 0; j < len(set); j++ {
				if set[j] == ch.b {
					return true
				}
			}
			return false
		}
		var alts []*Term
		for j := 0; j < len(set); j++ {
			alts = append(alts, Eq(ch.sym, KInt64(int64(set[j]))))
		}
		if len(alts) == 0 {
			return false
		}
		return e.decide(Or(alts...))
	}
	trim := func(left, right bool) func(e *Engine, st *State, c *callCtx) bool {
		return func(e *Engine, st *State, c *callCtx) bool {
			cv, ok := symCV(e, st, c, 0)
			set, ok2 := kstr(c, 1)
			if !ok || !ok2 {
				return false
			}
			for i := 0; i < len(set); i++ {
				if set[i] >= 0x80 {
					return false
				}
			}
			for left && len(cv) > 0 && inSet(e, cv[0], set) {
				cv = cv[1:]
			}
			for right && len(cv) > 0 && inSet(e, cv[len(cv)-1], set) {
				cv = cv[:len(cv)-1]
			}
			c.ret(st, cvTerm(cv))
			return true
		}
	}
	optional("strings.Trim", trim(true, true))
	optional("strings.TrimLeft", trim(true, false))
	optional("strings.TrimRight", trim(false, true))
	optional("strings.IndexAny", func(e *Engine, st *State, c *callCtx) bool {
		cv, ok := symCV(e, st, c, 0)
		set, ok2 := kstr(c, 1)
		if !ok || !ok2 {
			return false
		}
		c.ret(st, KInt64(int64(anyOf(e, cv, set))))
		return true
	})
	optional("strings.ContainsAny", func(e *Engine, st *State, c *callCtx) bool {
		cv, ok := symCV(e, st, c, 0)
		set, ok2 := kstr(c, 1)
		if !ok || !ok2 {
			return false
		}
		var alts []*Term
		for _, ch := range cv {
			for j := 0; j < len(set); j++ {
				alts = append(alts, Eq(ch.code(), KInt64(int64(set[j]))))
			}
		}
		if len(alts) == 0 {
			c.ret(st, tFalse)
		} else {
			c.ret(st, Or(alts...))
		}
		return true
	})
	optional("strings.ContainsRune", func(e *Engine, st *State, c *callCtx) bool {
		cv, ok := symCV(e, st, c, 0)
		r, ok2 := c.args[1].(*Term)
		if !ok || !ok2 || !r.K || r.I.Int64() >= 128 {
			return false
		}
		var alts []*Term
		for _, ch := range cv {
			alts = append(alts, Eq(ch.code(), r))
		}
		if len(alts) == 0 {
			c.ret(st, tFalse)
		} else {
			c.ret(st, Or(alts...))
		}
		return true
	})
	// REALNET=1 (harness parameter): net.ParseIP, net.ParseCIDR and net.IP.String are not modelled; their
	// real bodies (net, net/netip) are executed. Meant for character-vector strings.
	for _, name := range []string{"net.ParseIP", "net.ParseCIDR", "(net.IP).String"} {
		name := name
		old := intrinsics[name]
		if old == nil {
			panic("zz_cvwire: no intrinsic " + name)
		}
		intrinsics[name] = func(e *Engine, st *State, c *callCtx) bool {
			if e.cfg.Params["REALNET"] == 1 {
				c.declined = true
				return true
			}
			return old(e, st, c)
		}
	}
	// fmt.Sprintf may quote a character vector (%q): let it fork on the character classes
	intrinsics["fmt.Sprintf"] = forking(intrinsics["fmt.Sprintf"])
	wrap("net.JoinHostPort", func(e *Engine, st *State, c *callCtx) bool {
		ht, ok := c.args[0].(*Term)
		pt, ok2 := c.args[1].(*Term)
		if !ok || !ok2 || (ht.K && pt.K) {
			return false
		}
		h, ok := charVec(ht)
		p, ok2 := charVec(pt)
		if !ok || !ok2 {
			return false
		}
		// net.JoinHostPort: brackets when the host contains a colon or a percent sign
		var out []cvChar
		if e.cvIndex(h, ":") >= 0 || e.cvIndex(h, "%") >= 0 {
			out = append(out, cvChar{b: '['})
			out = append(out, h...)
			out = append(out, cvChar{b: ']'})
		} else {
			out = append(out, h...)
		}
		out = append(out, cvChar{b: ':'})
		out = append(out, p...)
		c.ret(st, cvTerm(out))
		return true
	})
	wrap("strings.TrimSpace", func(e *Engine, st *State, c *callCtx) bool {
		cv, ok := symCV(e, st, c, 0)
		if !ok {
			if t, isT := c.args[0].(*Term); isT && !t.K && debugTrace {
				println("TRIMSPACE non-cv:", t.S)
				for _, p := range t.parts {
					println("   part:", p.S, p.K, p.code != nil)
				}
			}
			return false
		}
		c.ret(st, cvTerm(e.cvTrimSpace(cv)))
		return true
	})
	wrap("strings.Fields", func(e *Engine, st *State, c *callCtx) bool {
		cv, ok := symCV(e, st, c, 0)
		if !ok {
			return false
		}
		c.ret(st, strSlice(st, e.cvFields(cv), true))
		return true
	})
	split := func(nArg int) func(e *Engine, st *State, c *callCtx) bool {
		return func(e *Engine, st *State, c *callCtx) bool {
			cv, ok := symCV(e, st, c, 0)
			sep, ok2 := kstr(c, 1)
			if !ok || !ok2 || sep == "" {
				return false
			}
			n := -1
			if nArg >= 0 {
				nt, ok := c.args[nArg].(*Term)
				if !ok || !nt.K {
					return false
				}
				n = int(nt.I.Int64())
				if n == 0 {
					return false
				}
			}
			c.ret(st, strSlice(st, e.cvSplit(cv, sep, n), false))
			return true
		}
	}
	wrap("strings.Split", split(-1))
	wrap("strings.SplitN", split(2))
	index := func(last bool, byteArg bool) func(e *Engine, st *State, c *callCtx) bool {
		return func(e *Engine, st *State, c *callCtx) bool {
			cv, ok := symCV(e, st, c, 0)
			if !ok {
				return false
			}
			var sub string
			if byteArg {
				bt, ok := c.args[1].(*Term)
				if !ok || !bt.K || bt.I.Int64() >= 128 {
					return false
				}
				sub = string([]byte{byte(bt.I.Int64())})
			} else {
				s, ok := kstr(c, 1)
				if !ok {
					return false
				}
				sub = s
			}
			if last {
				c.ret(st, KInt64(int64(e.cvLastIndex(cv, sub))))
			} else {
				c.ret(st, KInt64(int64(e.cvIndex(cv, sub))))
			}
			return true
		}
	}
	wrap("strings.Index", index(false, false))
	wrap("strings.IndexByte", index(false, true))
	wrap("strings.IndexRune", index(false, true))
	wrap("internal/bytealg.IndexByteString", index(false, true))
	wrap("strings.LastIndex", index(true, false))
	wrap("strings.LastIndexByte", index(true, true))
	wrap("strings.TrimPrefix", func(e *Engine, st *State, c *callCtx) bool {
		cv, ok := symCV(e, st, c, 0)
		sub, ok2 := kstr(c, 1)
		if !ok || !ok2 {
			return false
		}
		if e.cvEqAt(cv, 0, sub) {
			cv = cv[len(sub):]
		}
		c.ret(st, cvTerm(cv))
		return true
	})
	wrap("strings.TrimSuffix", func(e *Engine, st *State, c *callCtx) bool {
		cv, ok := symCV(e, st, c, 0)
		sub, ok2 := kstr(c, 1)
		if !ok || !ok2 {
			return false
		}
		if e.cvEqAt(cv, len(cv)-len(sub), sub) {
			cv = cv[:len(cv)-len(sub)]
		}
		c.ret(st, cvTerm(cv))
		return true
	})
	wrap("strings.ToLower", func(e *Engine, st *State, c *callCtx) bool {
		cv, ok := symCV(e, st, c, 0)
		if !ok {
			return false
		}
		c.ret(st, cvTerm(e.cvToLower(cv)))
		return true
	})
	wrap("strings.ToUpper", func(e *Engine, st *State, c *callCtx) bool {
		cv, ok := symCV(e, st, c, 0)
		if !ok {
			return false
		}
		c.ret(st, cvTerm(e.cvToUpper(cv)))
		return true
	})
	wrap("strconv.Quote", func(e *Engine, st *State, c *callCtx) bool {
		cv, ok := symCV(e, st, c, 0)
		if !ok {
			return false
		}
		c.ret(st, cvTerm(e.cvQuote(cv)))
		return true
	})
	reOf := func(st *State, c *callCtx) (string, bool) {
		p, ok := c.args[0].(PtrVal)
		if !ok || p.Obj == 0 {
			return "", false
		}
		rv, ok := st.heap[p.Obj].V.(RegexpVal)
		if !ok {
			return "", false
		}
		return rv.Pat, true
	}
	wrap("(*regexp.Regexp).MatchString", func(e *Engine, st *State, c *callCtx) bool {
		pat, ok := reOf(st, c)
		cv, ok2 := symCV(e, st, c, 1)
		if !ok || !ok2 {
			return false
		}
		caps, err := e.cvRegex(pat, cv)
		if err != nil {
			return false
		}
		c.ret(st, KBool(caps != nil))
		return true
	})
	wrap("(*regexp.Regexp).FindStringSubmatch", func(e *Engine, st *State, c *callCtx) bool {
		pat, ok := reOf(st, c)
		cv, ok2 := symCV(e, st, c, 1)
		if !ok || !ok2 {
			return false
		}
		caps, err := e.cvRegex(pat, cv)
		if err != nil {
			return false
		}
		if caps == nil {
			c.ret(st, SliceVal{Off: KInt64(0), Len: KInt64(0), Cap: KInt64(0)})
			return true
		}
		n := regexp.MustCompile(pat).NumSubexp() + 1
		el := make([]Value, n)
		for i := 0; i < n; i++ {
			el[i] = KStr("")
			if 2*i+1 < len(caps) && caps[2*i] >= 0 && caps[2*i+1] >= 0 {
				el[i] = cvTerm(cv[caps[2*i]:caps[2*i+1]])
			}
		}
		id := st.newObj(ArrayVal{E: el}, nil)
		ln := KInt64(int64(n))
		c.ret(st, SliceVal{Obj: id, Off: KInt64(0), Len: ln, Cap: ln})
		return true
	})
	wrap("(*bufio.Scanner).Scan", func(e *Engine, st *State, c *callCtx) bool {
		p, ok := c.args[0].(PtrVal)
		if !ok || p.Obj == 0 {
			return false
		}
		sv, ok := st.heap[p.Obj].V.(ScanVal)
		if !ok || sv.Rest.K || sv.Reader != "" {
			return false
		}
		cv, ok := charVec(sv.Rest)
		if !ok {
			return false
		}
		if len(cv) == 0 {
			c.ret(st, tFalse)
			return true
		}
		i := e.cvIndex(cv, "\n")
		line, rest := cv, []cvChar{}
		if i >= 0 {
			line, rest = cv[:i], cv[i+1:]
		}
		// bufio.ScanLines drops one trailing carriage return
		if len(line) > 0 && e.cvIs(line[len(line)-1], '\r') {
			line = line[:len(line)-1]
		}
		st.heap[p.Obj] = &Obj{V: ScanVal{Rest: cvTerm(rest), Tok: cvTerm(line), Reader: sv.Reader}}
		c.ret(st, tTrue)
		return true
	})
}

func init() {
	// unique.Make for net/netip's address detail: one handle object per distinct (described) value
	reg("unique.Make[net/netip.addrDetail]", func(e *Engine, st *State, c *callCtx) bool {
		v := c.args[0]
		key := "unique:" + describe(v)
		p, ok := st.side[key].(PtrVal)
		if !ok {
			p = PtrVal{Obj: st.newObj(v, nil)}
			st.side[key] = p
		}
		e.res.Assumptions["unique.Make(netip.addrDetail): handles are equal iff the values are syntactically equal (zones are rejected by net.ParseIP/ParseCIDR anyway)"]++
		c.ret(st, StructVal{F: []Value{p}})
		return true
	})
}
