package main

import (
	"fmt"
	"go/token"
	"go/types"
	"os"
	"math/big"
	"strconv"
	"strings"

	"golang.org/x/tools/go/ssa"
)

type callCtx struct {
	args []Value
	site ssa.Instruction
	ret  func(*State, Value)
	fn   *ssa.Function
	// declined: the intrinsic does not apply to these operands; the real function body is executed
	declined bool
}

type intrinsic func(e *Engine, st *State, c *callCtx) bool

var intrinsics = map[string]intrinsic{}

func (c *callCtx) term(i int) *Term {
	t, ok := c.args[i].(*Term)
	if !ok {
		unsup("intrinsic %s: argument %d is %s", c.fn, i, describe(c.args[i]))
	}
	return t
}

func (c *callCtx) str(e *Engine, st *State, i int) *Term { return e.toSMTString(st, c.args[i]) }

// ---------- vp primitives ----------

func (e *Engine) newInput(st *State, label, kind, typ string) *Input {
	n := st.labelN[label]
	st.labelN[label] = n + 1
	if n > 0 {
		label = fmt.Sprintf("%s#%d", label, n)
	}
	in := &Input{Label: label, Kind: kind, Type: typ}
	st.inputs = append(st.inputs, in)
	return in
}

func constStr(v Value, what string) string {
	t, ok := v.(*Term)
	if !ok || !t.K || t.Sort != SStr {
		unsup("%s must be a constant string", what)
	}
	return t.Str
}
func constInt(v Value, what string) int {
	t, ok := v.(*Term)
	if !ok || !t.K || t.Sort != SInt {
		unsup("%s must be a constant integer", what)
	}
	return int(t.I.Int64())
}

var vpIntKinds = map[string]types.BasicKind{
	"Int": types.Int, "Int64": types.Int64, "Int32": types.Int32, "Int16": types.Int16, "Int8": types.Int8,
	"Uint8": types.Uint8, "Uint16": types.Uint16, "Uint32": types.Uint32, "Uint64": types.Uint64, "Byte": types.Uint8,
}

var vpBodies = map[string]bool{"ModelDial": true, "ModelReceived": true, "ModelDials": true}

func (e *Engine) vpCall(st *State, name string, args []Value, site ssa.Instruction, ret func(*State, Value)) bool {
	if k, ok := vpIntKinds[name]; ok {
		label := constStr(args[0], "vp label")
		in := e.newInput(st, label, "int", strings.ToLower(name))
		ii := intInfos[k]
		v := e.fresh("in_" + label)
		e.sol.Declare(v, SInt)
		t := IntVarR(v, ii.lo, ii.hi)
		e.sol.Assert(And(Le(KInt(ii.lo), stripFacts(t)), Le(stripFacts(t), KInt(ii.hi))))
		in.Term = t
		ret(st, t)
		return true
	}
	switch name {
	case "IntRange":
		label := constStr(args[0], "vp label")
		lo, hi := args[1].(*Term), args[2].(*Term)
		in := e.newInput(st, label, "int", "int")
		v := e.fresh("in_" + label)
		e.sol.Declare(v, SInt)
		t := IntVarR(v, lo.Lo, hi.Hi)
		e.sol.Assert(And(Le(lo, stripFacts(t)), Le(stripFacts(t), hi)))
		in.Term = t
		ret(st, t)
	case "Choice":
		label := constStr(args[0], "vp label")
		n := args[1].(*Term)
		in := e.newInput(st, label, "int", "int")
		v := e.fresh("ch_" + label)
		e.sol.Declare(v, SInt)
		hi := n.Hi
		if hi != nil {
			hi = new(big.Int).Sub(hi, big1)
		}
		t := IntVarR(v, big0, hi)
		e.sol.Assert(And(Le(KInt64(0), stripFacts(t)), Lt(stripFacts(t), n)))
		in.Term = t
		ret(st, t)
	case "Bool":
		label := constStr(args[0], "vp label")
		in := e.newInput(st, label, "bool", "bool")
		t := e.freshVar("in_"+label, SBool)
		in.Term = t
		ret(st, t)
	case "String":
		label := constStr(args[0], "vp label")
		in := e.newInput(st, label, "string", "string")
		t := e.freshVar("in_"+label, SStr)
		in.Term = t
		ret(st, t)
	case "StringOf":
		// string over a character set ("a-z0-9.:-" style ranges) with a length bound, no forking
		label := constStr(args[0], "vp label")
		set := constStr(args[1], "vp.StringOf charset")
		mx := constInt(args[2], "vp.StringOf maxLen")
		in := e.newInput(st, label, "string", "string")
		t := e.freshVar("in_"+label, SStr)
		in.Term = t
		var alts []string
		for i := 0; i < len(set); i++ {
			if i+2 < len(set) && set[i+1] == '-' {
				alts = append(alts, "(re.range "+smtStrLit(set[i:i+1])+" "+smtStrLit(set[i+2:i+3])+")")
				i += 2
			} else {
				alts = append(alts, "(str.to_re "+smtStrLit(set[i:i+1])+")")
			}
		}
		re := alts[0]
		if len(alts) > 1 {
			re = "(re.union " + strings.Join(alts, " ") + ")"
		}
		e.sol.Assert(&Term{S: "(str.in_re " + t.S + " (re.* " + re + "))", Sort: SBool})
		e.sol.Assert(Le(StrLen(t), KInt64(int64(mx))))
		t.lenHint = &Term{S: "(str.len " + t.S + ")", Sort: SInt, Lo: big0, Hi: big.NewInt(int64(mx))}
		ret(st, t)
	case "Chars":
		// string of exactly n characters over a character set; each character is a symbolic code, so the
		// string has a concrete shape and library calls on it run structurally (cv.go)
		label := constStr(args[0], "vp label")
		set := constStr(args[1], "vp.Chars charset")
		n := constInt(args[2], "vp.Chars n")
		in := e.newInput(st, label, "string", "string")
		var cs []*Term
		for i := 0; i < n; i++ {
			cn := e.fresh(fmt.Sprintf("chr_%s_%d", label, i))
			e.sol.Declare(cn, SInt)
			ct := IntVarR(cn, big0, big.NewInt(127))
			var alts []*Term
			for j := 0; j < len(set); j++ {
				if j+2 < len(set) && set[j+1] == '-' {
					alts = append(alts, And(Le(KInt64(int64(set[j])), stripFacts(ct)), Le(stripFacts(ct), KInt64(int64(set[j+2])))))
					j += 2
				} else {
					alts = append(alts, Eq(stripFacts(ct), KInt64(int64(set[j]))))
				}
			}
			e.sol.Assert(Or(alts...))
			cs = append(cs, StrFromCode(ct))
		}
		// the input is read back from the model as the concatenation itself: no string variable, so the
		// solver context stays in linear integer arithmetic
		v := Concat(cs...)
		in.Term = v
		ret(st, v)
	case "Bytes":
		label := constStr(args[0], "vp label")
		mx := constInt(args[1], "vp.Bytes maxLen")
		in := e.newInput(st, label, "bytes", "[]byte")
		a := e.freshVar("in_"+label, SArr)
		ln := e.fresh("len_" + label)
		e.sol.Declare(ln, SInt)
		lt := IntVarR(ln, big0, big.NewInt(int64(mx)))
		e.sol.Assert(And(Le(KInt64(0), stripFacts(lt)), Le(stripFacts(lt), KInt64(int64(mx)))))
		in.Term, in.Len, in.Max = a, lt, mx
		id := st.newObj(SymArrVal{A: a, N: lt, Elem: types.Typ[types.Uint8], NeedRange: true}, nil)
		ret(st, SliceVal{Obj: id, Off: KInt64(0), Len: lt, Cap: lt})
	case "Runes":
		// ASCII runes
		label := constStr(args[0], "vp label")
		mx := constInt(args[1], "vp.Runes maxLen")
		in := e.newInput(st, label, "bytes", "[]rune")
		a := e.freshVar("in_"+label, SArr)
		ln := e.fresh("len_" + label)
		e.sol.Declare(ln, SInt)
		lt := IntVarR(ln, big0, big.NewInt(int64(mx)))
		e.sol.Assert(And(Le(KInt64(0), stripFacts(lt)), Le(stripFacts(lt), KInt64(int64(mx)))))
		in.Term, in.Len, in.Max = a, lt, mx
		e.res.Assumptions["vp.Runes: runes are ASCII (0..127)"]++
		id := st.newObj(SymArrVal{A: a, N: lt, Elem: types.Typ[types.Int32], NeedRange: true, RLo: big0, RHi: big.NewInt(127)}, nil)
		ret(st, SliceVal{Obj: id, Off: KInt64(0), Len: lt, Cap: lt})
	case "Float64":
		label := constStr(args[0], "vp label")
		in := e.newInput(st, label, "float", "float64")
		k := e.fresh("fk_" + label)
		e.sol.Declare(k, SInt)
		kt := IntVarR(k, big0, big.NewInt(3))
		e.sol.Assert(And(Le(KInt64(0), stripFacts(kt)), Le(stripFacts(kt), KInt64(3))))
		v := e.freshVar("in_"+label, SReal)
		mx := KReal(maxF64)
		e.sol.Assert(And(Le(RSub(rZero, mx), v), Le(v, mx)))
		e.sol.Assert(Implies(Not(Eq(stripFacts(kt), KInt64(0))), Eq(v, rZero)))
		// representable magnitudes only: zero or at least the smallest denormal
		e.sol.Assert(Or(Eq(v, rZero), Le(KReal(minDenorm), v), Le(v, RSub(rZero, KReal(minDenorm)))))
		in.Term, in.FKind = v, kt
		ret(st, FloatVal{Kind: kt, V: v})
	case "Param":
		p := constStr(args[0], "vp.Param name")
		v, ok := e.cfg.Params[p]
		if !ok && p != "NSHARDS" && p != "SHARD" {
			unsup("missing harness parameter %q", p)
		}
		ret(st, KInt64(int64(v)))
	case "Assume":
		c := args[0].(*Term)
		return e.branch(st, []Alt{{Cond: c, Do: func(s *State) { ret(s, nil) }}})
	case "Assert":
		c := args[0].(*Term)
		label := constStr(args[1], "vp.Assert label")
		where := ""
		if site != nil {
			where = e.pos(site)
		}
		e.res.Obligations++
		if c.K {
			if c.B {
				e.res.Discharged++
				ret(st, nil)
				return true
			}
			e.reportFinding(st, "assert", label, where)
			e.endPath(st, "return", "")
			st.fr = nil
			return false
		}
		neg := Not(c)
		r := e.sol.Query(neg)
		e.sol.EndQuery()
		if r == "sat" {
			// a model of every input, consistent with the real library functions, is needed
			r = e.satRefined(st, neg)
			if r == "sat" {
				e.reportFindingInQuery(st, "assert", label, where)
				e.sol.EndQuery()
			}
		}
		switch r {
		case "unsat":
			e.res.Discharged++
			ret(st, nil)
			return true
		case "sat":
		default:
			e.res.Inconclusive++
			e.res.InconclusiveAt["assert "+label]++
		}
		return e.branch(st, []Alt{{Cond: c, Tag: "assert-ok " + label, Do: func(s *State) { ret(s, nil) }}})
	case "Cover":
		label := constStr(args[0], "vp.Cover label")
		if !st.covers[label] && e.res.Covers[label] == 0 {
			if r := e.sol.Query(nil); r == "sat" {
				st.covers[label] = true
			}
			e.sol.EndQuery()
		} else {
			st.covers[label] = true
		}
		ret(st, nil)
	case "Known":
		id := constStr(args[0], "vp.Known id")
		c := args[1].(*Term)
		if !e.knownOpen[id] {
			ret(st, c)
			return true
		}
		return e.branch(st, []Alt{
			{Cond: c, Tag: "known:" + id, Do: func(s *State) { s.known = append(s.known, id); ret(s, tTrue) }},
			{Cond: Not(c), Do: func(s *State) { ret(s, tFalse) }},
		})
	case "BoundReceiver":
		iv, ok := args[0].(IfaceVal)
		if !ok || iv.T == nil {
			ret(st, nilPtr)
			return true
		}
		fv, ok := iv.V.(FuncVal)
		if !ok || len(fv.Bind) == 0 {
			ret(st, nilPtr)
			return true
		}
		ret(st, fv.Bind[0])
	case "CutBefore":
		// symbolic execution leaves the function that is about to call the named function
		// (the rest of that function is outside this harness' claim); natively a no-op
		st.ghost["cut:"+constStr(args[0], "vp.CutBefore callee")] = tTrue
		e.res.Assumptions["cut: execution of the caller ends before its call to "+constStr(args[0], "")]++
		ret(st, nil)
	case "CutAt":
		// symbolic execution returns from the function that reaches the source line containing
		// the given text (unique in the harness' package); natively a no-op
		pat := constStr(args[0], "vp.CutAt pattern")
		loc := e.findSourceLine(pat)
		if loc == "" {
			unsup("vp.CutAt: pattern %q not found exactly once in package sources", pat)
		}
		if e.cutLines == nil {
			e.cutLines = map[string]bool{}
		}
		e.cutLines[loc] = true
		e.res.Assumptions["cut: the function reaching source line `"+pat+"` returns there (rest outside this harness)"]++
		ret(st, nil)
	case "Clock":
		// virtual clock in nanoseconds, advanced by time.Sleep
		c, ok := st.ghost["clock"].(*Term)
		if !ok {
			c = KInt64(0)
		}
		ret(st, c)
	case "Gunzip":
		ret(st, args[0])
	case "UpstreamListen":
		st.ghost["upstream"] = tTrue
		ret(st, KStr("upstream.test:1"))
	case "UpstreamReceived":
		return e.invoke(st, FuncVal{Fn: e.vpFunc("ModelReceived")}, nil, site, ret)
	case "UpstreamDials":
		return e.invoke(st, FuncVal{Fn: e.vpFunc("ModelDials")}, nil, site, ret)
	case "Observe":
		ret(st, nil)
	default:
		unsup("vp.%s", name)
	}
	return true
}

// ---------- strings ----------

func reg(name string, h intrinsic) { intrinsics[name] = h }

func init() {
	reg("strings.HasPrefix", func(e *Engine, st *State, c *callCtx) bool {
		c.ret(st, StrPrefixOf(c.str(e, st, 1), c.str(e, st, 0)))
		return true
	})
	reg("strings.HasSuffix", func(e *Engine, st *State, c *callCtx) bool {
		c.ret(st, StrSuffixOf(c.str(e, st, 1), c.str(e, st, 0)))
		return true
	})
	reg("strings.Contains", func(e *Engine, st *State, c *callCtx) bool {
		c.ret(st, StrContains(c.str(e, st, 0), c.str(e, st, 1)))
		return true
	})
	reg("strings.Index", func(e *Engine, st *State, c *callCtx) bool {
		c.ret(st, e.name(StrIndexOf(c.str(e, st, 0), c.str(e, st, 1), KInt64(0))))
		return true
	})
	reg("strings.IndexByte", func(e *Engine, st *State, c *callCtx) bool {
		c.ret(st, e.name(StrIndexOf(c.str(e, st, 0), StrFromCode(c.term(1)), KInt64(0))))
		return true
	})
	reg("strings.IndexRune", func(e *Engine, st *State, c *callCtx) bool {
		r := c.term(1)
		if !r.K || r.I.Int64() >= 128 {
			unsup("strings.IndexRune with non-constant / non-ASCII rune")
		}
		c.ret(st, e.name(StrIndexOf(c.str(e, st, 0), StrFromCode(r), KInt64(0))))
		return true
	})
	reg("strings.LastIndexByte", func(e *Engine, st *State, c *callCtx) bool {
		c.ret(st, e.lastIndex(c.str(e, st, 0), StrFromCode(c.term(1))))
		return true
	})
	reg("strings.LastIndex", func(e *Engine, st *State, c *callCtx) bool {
		sub := c.str(e, st, 1)
		if !sub.K || len(sub.Str) != 1 {
			unsup("strings.LastIndex with non single-char separator")
		}
		c.ret(st, e.lastIndex(c.str(e, st, 0), sub))
		return true
	})
	reg("strings.Replace", func(e *Engine, st *State, c *callCtx) bool {
		n := c.term(3)
		s, a, b := c.str(e, st, 0), c.str(e, st, 1), c.str(e, st, 2)
		switch {
		case n.K && n.I.Int64() == 1:
			// Go: empty old matches at the start; SMT str.replace has the same convention
			c.ret(st, e.name(StrReplace(s, a, b)))
		case n.K && n.I.Int64() < 0:
			c.ret(st, e.name(StrReplaceAll(s, a, b)))
		case n.K && n.I.Int64() == 0:
			c.ret(st, s)
		default:
			unsup("strings.Replace with n=%s", n.S)
		}
		return true
	})
	reg("strings.ReplaceAll", func(e *Engine, st *State, c *callCtx) bool {
		a := c.str(e, st, 1)
		if a.K && a.Str == "" {
			unsup("ReplaceAll with empty old")
		}
		c.ret(st, e.name(StrReplaceAll(c.str(e, st, 0), a, c.str(e, st, 2))))
		return true
	})
	reg("strings.TrimPrefix", func(e *Engine, st *State, c *callCtx) bool {
		s, p := c.str(e, st, 0), c.str(e, st, 1)
		c.ret(st, e.name(Ite(StrPrefixOf(p, s), Substr(s, StrLen(p), Sub(StrLen(s), StrLen(p))), s)))
		return true
	})
	reg("strings.TrimSuffix", func(e *Engine, st *State, c *callCtx) bool {
		s, p := c.str(e, st, 0), c.str(e, st, 1)
		c.ret(st, e.name(Ite(StrSuffixOf(p, s), Substr(s, KInt64(0), Sub(StrLen(s), StrLen(p))), s)))
		return true
	})
	reg("strings.ToLower", func(e *Engine, st *State, c *callCtx) bool {
		c.ret(st, e.caseMap(c.str(e, st, 0), true))
		return true
	})
	reg("strings.ToUpper", func(e *Engine, st *State, c *callCtx) bool {
		c.ret(st, e.caseMap(c.str(e, st, 0), false))
		return true
	})
	reg("strings.EqualFold", func(e *Engine, st *State, c *callCtx) bool {
		c.ret(st, Eq(e.caseMap(c.str(e, st, 0), true), e.caseMap(c.str(e, st, 1), true)))
		return true
	})
	reg("strings.TrimSpace", func(e *Engine, st *State, c *callCtx) bool {
		a := c.str(e, st, 0)
		if v, ok := st.side["trim:"+a.S]; ok {
			c.ret(st, v)
			return true
		}
		r := e.trimSpace(a)
		st.side["trim:"+a.S] = r
		c.ret(st, r)
		return true
	})
	reg("strings.Split", func(e *Engine, st *State, c *callCtx) bool {
		return e.split(st, c, c.str(e, st, 0), c.str(e, st, 1), -1)
	})
	reg("strings.SplitN", func(e *Engine, st *State, c *callCtx) bool {
		n := c.term(2)
		if !n.K {
			unsup("strings.SplitN with symbolic n")
		}
		return e.split(st, c, c.str(e, st, 0), c.str(e, st, 1), int(n.I.Int64()))
	})
	reg("strings.Join", func(e *Engine, st *State, c *callCtx) bool {
		sl := c.args[0].(SliceVal)
		sep := c.str(e, st, 1)
		return e.concretize(st, sl.Len, "join len", func(s1 *State, n int) {
			e.concretize(s1, sl.Off, "join off", func(s2 *State, off int) {
				var parts []*Term
				if n > 0 {
					arr := e.backing(s2, sl.Obj).(ArrayVal)
					for i := 0; i < n; i++ {
						if i > 0 {
							parts = append(parts, sep)
						}
						parts = append(parts, e.toSMTString(s2, arr.E[off+i]))
					}
				}
				c.ret(s2, e.name(Concat(parts...)))
			})
		})
	})
	reg("strings.Repeat", func(e *Engine, st *State, c *callCtx) bool {
		s, n := c.str(e, st, 0), c.term(1)
		if !n.K {
			unsup("strings.Repeat with symbolic count")
		}
		if n.I.Sign() < 0 {
			e.doPanic(st, OpaqueVal{"strings: negative Repeat count"}, "panic strings.Repeat", "explicit")
			return true
		}
		var parts []*Term
		for i := 0; i < int(n.I.Int64()); i++ {
			parts = append(parts, s)
		}
		c.ret(st, Concat(parts...))
		return true
	})
	reg("strconv.Itoa", func(e *Engine, st *State, c *callCtx) bool {
		c.ret(st, e.itoa(c.term(0)))
		return true
	})
	reg("fmt.Errorf", func(e *Engine, st *State, c *callCtx) bool {
		c.ret(st, e.newError(st, KStr("<fmt.Errorf>")))
		return true
	})
}

// an error value: a fresh *errors.errorString (the real type, so Error() runs the real method)
func (e *Engine) newError(st *State, msg Value) Value {
	id := st.newObj(StructVal{F: []Value{msg}}, nil)
	return IfaceVal{T: e.errStringPtr, V: PtrVal{Obj: id}}
}

func (e *Engine) lastIndex(s, ch *Term) *Term {
	if s.K && ch.K {
		return KInt64(int64(strings.LastIndex(s.Str, ch.Str)))
	}
	n := e.fresh("lidx")
	e.sol.Declare(n, SInt)
	nt := IntVarR(n, big.NewInt(-1), maxLen)
	raw := stripFacts(nt)
	ln := StrLen(s)
	rest := Substr(s, Add(raw, KInt64(1)), Sub(ln, Add(raw, KInt64(1))))
	e.sol.Assert(Or(
		And(Eq(raw, KInt64(-1)), Not(StrContains(s, ch))),
		And(Le(KInt64(0), raw), Lt(raw, ln), Eq(Substr(s, raw, KInt64(1)), ch), Not(StrContains(rest, ch)))))
	return nt
}

func lowerChar(c *Term, lower bool) *Term {
	if lower {
		return Ite(And(Le(KInt64(65), c), Le(c, KInt64(90))), Add(c, KInt64(32)), c)
	}
	return Ite(And(Le(KInt64(97), c), Le(c, KInt64(122))), Sub(c, KInt64(32)), c)
}

// ToLower / ToUpper: exact (per character, ASCII) when the length is provably bounded,
// otherwise an uninterpreted function with length / idempotence facts.
func (e *Engine) caseMap(s *Term, lower bool) *Term {
	if s.K {
		if lower {
			return KStr(strings.ToLower(s.Str))
		}
		return KStr(strings.ToUpper(s.Str))
	}
	fn := "fn_upper"
	if lower {
		fn = "fn_lower"
	}
	r := e.freshVar("case", SStr)
	ln := StrLen(s)
	e.sol.Assert(Eq(StrLen(r), ln))
	e.sol.Assert(&Term{S: "(= " + r.S + " (" + fn + " " + s.S + "))", Sort: SBool})
	e.sol.Assert(&Term{S: "(= " + r.S + " (" + fn + " " + r.S + "))", Sort: SBool})
	k := e.cfg.Params["CASEMAP"]
	if k == 0 {
		k = 12
	}
	bounded := false
	if ln.Hi != nil && ln.Hi.IsInt64() && ln.Hi.Int64() <= int64(k) {
		bounded = true
		k = int(ln.Hi.Int64())
	} else if e.ask(Gt(ln, KInt64(int64(k)))) == "unsat" {
		bounded = true
	}
	if bounded {
		e.res.Assumptions["ToLower/ToUpper: ASCII case mapping per byte (bytes >= 0x80 unchanged)"]++
		for i := 0; i < k; i++ {
			ci := KInt64(int64(i))
			e.sol.Assert(Implies(Lt(ci, ln), Eq(StrAtCode(r, ci), lowerChar(StrAtCode(s, ci), lower))))
		}
	} else {
		e.res.Assumptions["ToLower/ToUpper as uninterpreted function (length-preserving, idempotent)"]++
	}
	return r
}

var wsRe = `(re.* (re.union (str.to_re " ") (re.range "\u{9}" "\u{d}")))`

func isWsCode(c *Term) *Term {
	return Or(Eq(c, KInt64(32)), And(Le(KInt64(9), c), Le(c, KInt64(13))))
}

func (e *Engine) trimSpace(s *Term) *Term {
	if s.K {
		return KStr(strings.TrimSpace(s.Str))
	}
	e.res.Assumptions["TrimSpace: ASCII white space only"]++
	a, t, b := e.freshVar("wsl", SStr), e.freshVar("trim", SStr), e.freshVar("wsr", SStr)
	e.sol.Assert(Eq(s, Concat(a, t, b)))
	e.sol.Assert(&Term{S: "(str.in_re " + a.S + " " + wsRe + ")", Sort: SBool})
	e.sol.Assert(&Term{S: "(str.in_re " + b.S + " " + wsRe + ")", Sort: SBool})
	lt := StrLen(t)
	first := StrAtCode(t, KInt64(0))
	last := StrAtCode(t, Sub(lt, KInt64(1)))
	e.sol.Assert(Or(Eq(lt, KInt64(0)), And(Not(isWsCode(first)), Not(isWsCode(last)))))
	return t
}

// strings.Split / SplitN (n<0: all pieces)
func (e *Engine) split(st *State, c *callCtx, s, sep *Term, n int) bool {
	mk := func(s2 *State, parts []*Term) {
		el := make([]Value, len(parts))
		for i, p := range parts {
			el[i] = p
		}
		id := s2.newObj(ArrayVal{E: el}, nil)
		ln := KInt64(int64(len(el)))
		c.ret(s2, SliceVal{Obj: id, Off: KInt64(0), Len: ln, Cap: ln})
	}
	if n == 0 {
		c.ret(st, SliceVal{Off: KInt64(0), Len: KInt64(0), Cap: KInt64(0)})
		return true
	}
	if s.K && sep.K {
		var ps []string
		if n < 0 {
			ps = strings.Split(s.Str, sep.Str)
		} else {
			ps = strings.SplitN(s.Str, sep.Str, n)
		}
		var ts []*Term
		for _, p := range ps {
			ts = append(ts, KStr(p))
		}
		mk(st, ts)
		return true
	}
	if !sep.K || sep.Str == "" {
		unsup("strings.Split with symbolic or empty separator")
	}
	// structural split of a concatenation whose symbolic operands provably contain no separator
	if s.parts != nil && n != 0 {
		ok := true
		var pieces [][]*Term
		cur := []*Term{}
		for pi, p := range s.parts {
			if n > 0 && len(pieces) == n-1 {
				// the last piece takes the rest verbatim
				cur = append(cur, s.parts[pi:]...)
				break
			}
			if p.K {
				segs := strings.Split(p.Str, sep.Str)
				if n > 0 && len(pieces)+len(segs) > n {
					// keep only as many separators as pieces are still allowed
					keep := n - len(pieces)
					segs = append(segs[:keep-1], strings.Join(segs[keep-1:], sep.Str))
				}
				for i, sg := range segs {
					if i > 0 {
						pieces = append(pieces, cur)
						cur = []*Term{}
					}
					if sg != "" {
						cur = append(cur, KStr(sg))
					}
				}
				continue
			}
			if e.ask(StrContains(p, sep)) != "unsat" {
				ok = false
				break
			}
			cur = append(cur, p)
		}
		if ok && len(sep.Str) == 1 {
			pieces = append(pieces, cur)
			var ts []*Term
			for _, pc := range pieces {
				ts = append(ts, Concat(pc...))
			}
			mk(st, ts)
			return true
		}
	}
	K := e.cfg.Params["SPLIT"]
	if K == 0 {
		K = 4
	}
	limit := K
	if n > 0 && n < limit {
		limit = n
	}
	// shape with k pieces: pieces 0..k-2 followed by sep do not contain an earlier sep
	shape := func(k int, lastFree bool) ([]*Term, *Term) {
		parts := make([]*Term, k)
		var cs []*Term
		var cat []*Term
		if k == 1 {
			if lastFree {
				return []*Term{s}, tTrue
			}
			return []*Term{s}, Not(StrContains(s, sep))
		}
		for i := 0; i < k; i++ {
			parts[i] = e.freshVar("piece", SStr)
			if i > 0 {
				cat = append(cat, sep)
			}
			cat = append(cat, parts[i])
			if i < k-1 {
				if len(sep.Str) == 1 {
					cs = append(cs, Not(StrContains(parts[i], sep)))
				} else {
					cs = append(cs, Eq(StrIndexOf(Concat(parts[i], sep), sep, KInt64(0)), StrLen(parts[i])))
				}
			} else if !lastFree {
				cs = append(cs, Not(StrContains(parts[i], sep)))
			}
		}
		cs = append(cs, Eq(s, Concat(cat...)))
		return parts, And(cs...)
	}
	var alts []Alt
	for k := 1; k <= limit; k++ {
		lastFree := n > 0 && k == n
		// declarations must precede the fork: pieces are declared in the current scope
		parts, cond := shape(k, lastFree)
		ps := parts
		alts = append(alts, Alt{Cond: cond, Tag: fmt.Sprintf("split=%d", k), Do: func(s2 *State) { mk(s2, ps) }})
	}
	if !(n > 0 && limit == n) {
		// unwinding assertion: more pieces than the bound
		_, more := shape(limit+1, true)
		alts = append(alts, Alt{Cond: more, Tag: "split>bound", Do: func(s2 *State) {
			unsup("UNWIND strings.Split produces more than %d pieces", limit)
		}})
	}
	return e.branch(st, alts)
}

func (e *Engine) itoa(n *Term) *Term {
	if n.K {
		return KStr(strconv.FormatInt(n.I.Int64(), 10))
	}
	pos := &Term{S: "(str.from_int " + n.S + ")", Sort: SStr}
	if n.Lo != nil && n.Lo.Sign() >= 0 {
		return e.name(pos)
	}
	neg := Concat(KStr("-"), &Term{S: "(str.from_int " + Neg(n).S + ")", Sort: SStr})
	return e.name(Ite(Ge(n, KInt64(0)), pos, neg))
}

func (e *Engine) findSourceLine(pat string) string {
	found := ""
	n := 0
	e.fset.Iterate(func(f *token.File) bool {
		name := f.Name()
		if !strings.HasPrefix(name, repoDir+"/") || strings.Contains(name, "zz_vp_") || strings.HasSuffix(name, "_test.go") {
			return true
		}
		src, err := os.ReadFile(name)
		if err != nil {
			return true
		}
		for i, l := range strings.Split(string(src), "\n") {
			if strings.Contains(l, pat) {
				n++
				found = fmt.Sprintf("%s:%d", name, i+1)
			}
		}
		return true
	})
	if n != 1 {
		return ""
	}
	return found
}

func (e *Engine) vpFunc(name string) *ssa.Function {
	for _, p := range e.prog.AllPackages() {
		if p.Pkg.Path() == e.vpPkg {
			if f := p.Func(name); f != nil {
				return f
			}
		}
	}
	unsup("vp.%s not found", name)
	return nil
}
