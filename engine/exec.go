package main

import (
	"fmt"
	"go/constant"
	"go/token"
	"go/types"
	"math/big"
	"os"
	"strings"
	"time"

	"golang.org/x/tools/go/ssa"
)

type Alt struct {
	Cond    *Term
	Do      func(st *State)
	Tag     string
	IsPanic bool
}

var debugTrace = os.Getenv("SYMGO_TRACE") != ""

// ---------- feasibility ----------

// returns "sat", "unsat" or "unknown"
func (e *Engine) ask(cond *Term) string {
	if cond.K {
		if cond.B {
			return "sat"
		}
		return "unsat"
	}
	r := e.sol.Query(cond)
	e.sol.EndQuery()
	return r
}

func (e *Engine) endPath(st *State, kind, msg string) {
	e.res.Paths++
	e.res.Instrs += st.instrs
	st.instrs = 0
	switch kind {
	case "return":
		e.res.PathsReturned++
	case "panic":
		e.res.PathsPanicked++
	case "unsupported":
		e.res.Unsupported[msg]++
	case "unwind":
		e.res.UnwindFail[msg]++
	case "infeasible":
		e.res.PathsInfeasible++
	case "budget":
		e.res.BudgetHit = true
	}
	for c := range st.covers {
		e.res.Covers[c]++
	}
	if len(e.res.Samples) < 6 && (kind == "return" || kind == "panic") {
		tr := st.trace
		if len(tr) > 12 {
			tr = tr[len(tr)-12:]
		}
		e.res.Samples = append(e.res.Samples, kind+": "+strings.Join(tr, " ; "))
	}
	if debugTrace {
		fmt.Fprintf(os.Stderr, "PATH END %s %s\n", kind, msg)
	}
}

// branch explores the feasible alternatives. Afterwards st must not be used if
// it returns false (the paths have been run to completion recursively).
func (e *Engine) branch(st *State, alts []Alt) bool {
	var feas []Alt
	for i, a := range alts {
		if a.Cond.K {
			if a.Cond.B {
				feas = append(feas, a)
			}
			continue
		}
		if i == len(alts)-1 && len(feas) == 0 && !a.IsPanic {
			// the path is feasible and every other alternative is not: this one must be
			feas = append(feas, a)
			continue
		}
		r := e.ask(a.Cond)
		if a.IsPanic {
			e.res.Obligations++
			switch r {
			case "unsat":
				e.res.Discharged++
			case "unknown":
				e.res.Inconclusive++
				e.res.InconclusiveAt["rt-check "+a.Tag]++
			}
			if r == "sat" {
				feas = append(feas, a)
			}
			continue
		}
		if r != "unsat" {
			feas = append(feas, a)
		}
	}
	if len(feas) == 0 {
		e.endPath(st, "infeasible", "")
		st.consumed = true
		return false
	}
	if len(feas) == 1 {
		a := feas[0]
		if !a.Cond.K {
			e.sol.Assert(a.Cond)
			if a.Tag != "" {
				st.trace = append(st.trace, a.Tag)
			}
		}
		a.Do(st)
		return true
	}
	states := make([]*State, len(feas))
	for i := range feas {
		if i == len(feas)-1 {
			states[i] = st
		} else {
			states[i] = st.clone()
		}
	}
	for i, a := range feas {
		if e.stop() {
			e.endPath(states[i], "budget", "")
			continue
		}
		s := states[i]
		e.sol.Push()
		e.sol.Assert(a.Cond)
		if a.Tag != "" {
			s.trace = append(s.trace, a.Tag)
		}
		s.depth++
		e.runWith(s, a.Do)
		e.sol.Pop()
	}
	st.consumed = true
	return false
}

func (e *Engine) stop() bool {
	if e.res.BudgetHit {
		return true
	}
	if !e.deadline.IsZero() && time.Now().After(e.deadline) {
		e.res.BudgetHit = true
		return true
	}
	if e.cfg.MaxPaths > 0 && e.res.Paths >= e.cfg.MaxPaths {
		e.res.BudgetHit = true
		return true
	}
	return false
}

// rtCheck: run-time check. Explores the panicking continuation if it is feasible
// and continues st under ¬bad. Returns false if st has been consumed.
func (e *Engine) rtCheck(st *State, bad *Term, kind string, in ssa.Instruction, cont func(st *State)) bool {
	if bad.K && !bad.B {
		cont(st)
		return true
	}
	site := kind + " @ " + e.pos(in)
	return e.branch(st, []Alt{
		{Cond: bad, IsPanic: true, Tag: "PANIC " + site, Do: func(s *State) {
			e.doPanic(s, OpaqueVal{"runtime error: " + kind}, site, kind)
		}},
		{Cond: Not(bad), Do: cont},
	})
}

// ---------- run loop ----------

func (e *Engine) run(st *State) { e.runWith(st, nil) }

// runWith executes pre (if any) and then the interpreter loop, ending the path on
// unsupported code. During package initialisation unsupported operations are tolerated.
func (e *Engine) runWith(st *State, pre func(*State)) {
	first := true
	for {
		p := pre
		if !first {
			p = nil
		}
		first = false
		if !e.runInner(st, p) {
			return
		}
	}
}

func (e *Engine) runInner(st *State, pre func(*State)) (again bool) {
	defer func() {
		if r := recover(); r != nil {
			u, ok := r.(unsupported)
			if !ok {
				if os.Getenv("SYMGO_PANIC") != "" {
					panic(r)
				}
				// an operation the executor does not model for these operand kinds
				u = unsupported{fmt.Sprintf("executor: %v", r)}
			}
			if e.tolerantRecover(st, u.msg) {
				again = true
				return
			}
			msg := u.msg
			if st.fr != nil && st.fr.pc < len(st.fr.blk.Instrs) {
				msg += " @ " + e.pos(st.fr.blk.Instrs[st.fr.pc])
			}
			if strings.HasPrefix(u.msg, "UNWIND") {
				e.endPath(st, "unwind", msg)
			} else {
				e.endPath(st, "unsupported", msg)
			}
		}
	}()
	if pre != nil {
		pre(st)
		if st.consumed {
			return false
		}
	}
	for {
		if st.fr == nil {
			return false
		}
		fr := st.fr
		in := fr.blk.Instrs[fr.pc]
		st.instrs++
		if st.instrs&1023 == 0 && e.stop() {
			e.endPath(st, "budget", "")
			return false
		}
		if e.cfg.MaxInstrs > 0 && st.instrs > e.cfg.MaxInstrs {
			if fr.tolerant {
				unsup("instruction budget exceeded during initialisation")
			}
			e.endPath(st, "unsupported", "instruction budget exceeded in "+fr.fn.String())
			return false
		}
		if debugTrace {
			fmt.Fprintf(os.Stderr, "  [%s] %s\n", fr.fn.Name(), instrString(in))
		}
		if !e.step(st, in) {
			return false
		}
	}
}

func instrString(in ssa.Instruction) string {
	if v, ok := in.(ssa.Value); ok {
		return v.Name() + " = " + in.String()
	}
	return in.String()
}

func (e *Engine) val(st *State, v ssa.Value) Value {
	switch c := v.(type) {
	case *ssa.Const:
		return e.constVal(c)
	case *ssa.Global:
		id, ok := st.globals[c]
		if !ok {
			unsup("global %s not initialised (package not in init list)", c.String())
		}
		return PtrVal{Obj: id}
	case *ssa.Function:
		return FuncVal{Fn: c}
	case *ssa.Builtin:
		return FuncVal{Name: "builtin." + c.Name()}
	}
	if x, ok := st.fr.locals[v]; ok {
		return x
	}
	unsup("no value for %s in %s", v.Name(), st.fr.fn)
	return nil
}

func (e *Engine) constVal(c *ssa.Const) Value {
	t := c.Type()
	if c.Value == nil {
		return zeroValue(t)
	}
	if _, ok := t.Underlying().(*types.Interface); ok {
		unsup("interface constant")
	}
	switch c.Value.Kind() {
	case constant.Bool:
		return KBool(constant.BoolVal(c.Value))
	case constant.String:
		return KStr(constant.StringVal(c.Value))
	case constant.Int:
		if isFloat(t) {
			r, _ := new(big.Rat).SetString(c.Value.ExactString())
			return fKonst(r)
		}
		i, _ := new(big.Int).SetString(c.Value.ExactString(), 10)
		return KInt(i)
	case constant.Float:
		if isFloat(t) {
			// the constant as the float64 the compiler would emit
			f, _ := constant.Float64Val(c.Value)
			if bt, ok := t.Underlying().(*types.Basic); ok && bt.Kind() == types.Float32 {
				f32, _ := constant.Float32Val(c.Value)
				f = float64(f32)
			}
			r := new(big.Rat)
			r.SetFloat64(f)
			return fKonst(r)
		}
		// integer typed constant expressed as float
		f, _ := constant.Float64Val(c.Value)
		return KInt(big.NewInt(int64(f)))
	}
	unsup("constant kind %v", c.Value.Kind())
	return nil
}

func (e *Engine) setLocal(st *State, v ssa.Value, x Value) {
	st.fr.locals[v] = x
}

// step executes one instruction; returns false if st was consumed
func (e *Engine) step(st *State, in ssa.Instruction) bool {
	fr := st.fr
	switch x := in.(type) {
	case *ssa.DebugRef:
		fr.pc++
	case *ssa.Phi:
		// evaluate all phis of the block simultaneously
		blk := fr.blk
		idx := -1
		for i, p := range blk.Preds {
			if p == fr.prev {
				idx = i
				break
			}
		}
		if idx < 0 {
			unsup("phi: predecessor not found")
		}
		var vals []Value
		var phis []*ssa.Phi
		for _, ins := range blk.Instrs {
			ph, ok := ins.(*ssa.Phi)
			if !ok {
				break
			}
			phis = append(phis, ph)
			vals = append(vals, e.val(st, ph.Edges[idx]))
		}
		for i, ph := range phis {
			fr.locals[ph] = vals[i]
		}
		fr.pc += len(phis)
	case *ssa.Alloc:
		et := x.Type().Underlying().(*types.Pointer).Elem()
		id := st.newObj(zeroValue(et), et)
		fr.locals[x] = PtrVal{Obj: id}
		fr.pc++
	case *ssa.FieldAddr:
		p := e.val(st, x.X)
		pv, ok := p.(PtrVal)
		if !ok {
			unsup("FieldAddr of %s", describe(p))
		}
		if pv.Obj == 0 {
			e.doPanic(st, OpaqueVal{"nil pointer dereference"}, "nil-deref @ "+e.pos(in), "nil")
			return true
		}
		np := PtrVal{Obj: pv.Obj, Path: append(append([]PathElem(nil), pv.Path...), PathElem{Field: x.Field})}
		fr.locals[x] = np
		fr.pc++
	case *ssa.Field:
		s := e.val(st, x.X)
		sv, ok := s.(StructVal)
		if !ok {
			unsup("Field of %s", describe(s))
		}
		fr.locals[x] = sv.F[x.Field]
		fr.pc++
	case *ssa.Store:
		p := e.val(st, x.Addr)
		v := e.val(st, x.Val)
		pv, ok := p.(PtrVal)
		if !ok {
			unsup("Store to %s", describe(p))
		}
		if pv.Obj == 0 {
			e.doPanic(st, OpaqueVal{"nil pointer dereference"}, "nil-deref @ "+e.pos(in), "nil")
			return true
		}
		e.store(st, pv, v)
		fr.pc++
	case *ssa.UnOp:
		return e.unop(st, x)
	case *ssa.BinOp:
		return e.binopInstr(st, x)
	case *ssa.IndexAddr:
		return e.indexAddr(st, x)
	case *ssa.Index:
		return e.indexVal(st, x)
	case *ssa.Slice:
		return e.sliceInstr(st, x)
	case *ssa.Convert:
		fr.locals[x] = e.convert(st, e.val(st, x.X), x.X.Type(), x.Type())
		fr.pc++
	case *ssa.ChangeType:
		fr.locals[x] = e.val(st, x.X)
		fr.pc++
	case *ssa.ChangeInterface:
		fr.locals[x] = e.val(st, x.X)
		fr.pc++
	case *ssa.MakeInterface:
		fr.locals[x] = IfaceVal{T: x.X.Type(), V: e.val(st, x.X)}
		fr.pc++
	case *ssa.Extract:
		t := e.val(st, x.Tuple)
		tv, ok := t.(TupleVal)
		if !ok {
			unsup("Extract from %s", describe(t))
		}
		fr.locals[x] = tv[x.Index]
		fr.pc++
	case *ssa.Jump:
		e.jump(st, fr.blk.Succs[0])
	case *ssa.If:
		return e.ifInstr(st, x)
	case *ssa.Return:
		var rv Value
		switch len(x.Results) {
		case 0:
		case 1:
			rv = e.val(st, x.Results[0])
		default:
			t := make(TupleVal, len(x.Results))
			for i, r := range x.Results {
				t[i] = e.val(st, r)
			}
			rv = t
		}
		e.doReturn(st, rv)
	case *ssa.Call:
		return e.callInstr(st, x)
	case *ssa.MakeClosure:
		fn := x.Fn.(*ssa.Function)
		b := make([]Value, len(x.Bindings))
		for i, v := range x.Bindings {
			b[i] = e.val(st, v)
		}
		fr.locals[x] = FuncVal{Fn: fn, Bind: b}
		fr.pc++
	case *ssa.MakeSlice:
		return e.makeSlice(st, x)
	case *ssa.MakeMap:
		id := st.newObj(nil, x.Type())
		st.heap[id].M = &MapObj{}
		fr.locals[x] = MapVal{Obj: id}
		fr.pc++
	case *ssa.MakeChan:
		sz, ok := e.val(st, x.Size).(*Term)
		if !ok || !sz.K {
			unsup("MakeChan with symbolic size")
		}
		id := st.newObj(ChanState{Cap: int(sz.I.Int64())}, x.Type())
		fr.locals[x] = ChanVal{Obj: id}
		fr.pc++
	case *ssa.Lookup:
		return e.lookup(st, x)
	case *ssa.MapUpdate:
		return e.mapUpdate(st, x)
	case *ssa.Range:
		return e.rangeInstr(st, x)
	case *ssa.Next:
		return e.nextInstr(st, x)
	case *ssa.TypeAssert:
		return e.typeAssert(st, x)
	case *ssa.Defer:
		d := e.mkDeferred(st, x.Common())
		fr.defers = append(fr.defers, d)
		fr.pc++
	case *ssa.RunDefers:
		if n := len(fr.defers); n > 0 {
			d := fr.defers[n-1]
			fr.defers = fr.defers[:n-1]
			return e.invokeDeferred(st, d, func(s *State, rv Value) {})
		}
		fr.pc++
	case *ssa.Panic:
		v := e.val(st, x.X)
		e.doPanic(st, v, "panic @ "+e.pos(in), "explicit")
	case *ssa.Go:
		switch e.cfg.GoPolicy {
		case "inline":
			d := e.mkDeferred(st, x.Common())
			fr.pc++
			return e.invokeDeferred(st, d, func(s *State, rv Value) {})
		case "skip":
			fr.pc++
		default:
			// cooperative goroutine
			d := e.mkDeferred(st, x.Common())
			fr.pc++
			return e.spawn(st, d)
		}
	case *ssa.Send:
		return e.chanSend(st, x)
	case *ssa.Select:
		return e.chanSelect(st, x)
	case *ssa.SliceToArrayPointer:
		s := e.val(st, x.X).(SliceVal)
		n := int(x.Type().Underlying().(*types.Pointer).Elem().Underlying().(*types.Array).Len())
		if s.Obj == 0 {
			if n != 0 {
				unsup("SliceToArrayPointer of a nil slice")
			}
			fr.locals[x] = nilPtr
			fr.pc++
			break
		}
		if !s.Off.K || !s.Len.K {
			unsup("SliceToArrayPointer with symbolic bounds")
		}
		off, ln := int(s.Off.I.Int64()), int(s.Len.I.Int64())
		if ln < n {
			e.doPanic(st, OpaqueVal{"slice too short for array conversion"}, "panic: cannot convert slice to array", "runtime")
			return true
		}
		onlyLoads := true
		for _, r := range *x.Referrers() {
			if u, ok := r.(*ssa.UnOp); !ok || u.Op != token.MUL {
				onlyLoads = false
			}
		}
		switch b := e.backing(st, s.Obj).(type) {
		case ArrayVal:
			if off == 0 && len(b.E) == n {
				fr.locals[x] = PtrVal{Obj: s.Obj}
			} else if onlyLoads {
				fr.locals[x] = PtrVal{Obj: st.newObj(ArrayVal{E: append([]Value(nil), b.E[off:off+n]...)}, nil)}
			} else {
				unsup("SliceToArrayPointer into the middle of an array")
			}
		case SymArrVal:
			if off == 0 && b.N.K && int(b.N.I.Int64()) == n {
				fr.locals[x] = PtrVal{Obj: s.Obj}
			} else if onlyLoads {
				c := make([]*Term, n)
				for i := 0; i < n; i++ {
					t, ok := e.selectArr(b, KInt64(int64(off+i))).(*Term)
					if !ok {
						unsup("SliceToArrayPointer element")
					}
					c[i] = t
				}
				fr.locals[x] = PtrVal{Obj: st.newObj(SymArrVal{N: KInt64(int64(n)), Elem: b.Elem, C: c}, nil)}
			} else {
				unsup("SliceToArrayPointer into the middle of an array")
			}
		default:
			unsup("SliceToArrayPointer on %s", describe(b))
		}
		fr.pc++
	default:
		unsup("instruction %T", in)
	}
	return true
}

func (e *Engine) jump(st *State, to *ssa.BasicBlock) {
	fr := st.fr
	fr.prev = fr.blk
	fr.blk = to
	fr.pc = 0
	if len(e.cutLines) > 0 && fr.caller != nil {
		for _, in := range to.Instrs {
			if p := in.Pos(); p.IsValid() {
				pp := e.fset.Position(p)
				if e.cutLines[fmt.Sprintf("%s:%d", pp.Filename, pp.Line)] {
					e.doReturn(st, zeroResults(fr.fn))
					return
				}
			}
		}
	}
}

func (e *Engine) ifInstr(st *State, x *ssa.If) bool {
	fr := st.fr
	c := e.val(st, x.Cond)
	ct, ok := c.(*Term)
	if !ok {
		if fr.tolerant {
			unsup("opaque branch condition")
		}
		unsup("If on %s", describe(c))
	}
	blk := fr.blk
	if ct.K {
		if ct.B {
			e.jump(st, blk.Succs[0])
		} else {
			e.jump(st, blk.Succs[1])
		}
		return true
	}
	if fr.ifCnt == nil {
		fr.ifCnt = map[ssa.Instruction]int{}
	}
	fr.ifCnt[x]++
	if fr.ifCnt[x] > e.cfg.Unwind {
		// unwinding assertion: is this iteration reachable at all?
		e.endPath(st, "unwind", e.pos(x))
		return false
	}
	site := ""
	if debugTrace || len(st.trace) < 64 {
		p := e.fset.Position(x.Cond.Pos())
		if !p.IsValid() {
			p = e.fset.Position(x.Pos())
		}
		site = fmt.Sprintf("%s:%d", shortFile(p.Filename), p.Line)
	}
	return e.branch(st, []Alt{
		{Cond: ct, Tag: site + "=T", Do: func(s *State) { e.jump(s, blk.Succs[0]) }},
		{Cond: Not(ct), Tag: site + "=F", Do: func(s *State) { e.jump(s, blk.Succs[1]) }},
	})
}

func shortFile(f string) string {
	if i := strings.LastIndexByte(f, '/'); i >= 0 {
		return f[i+1:]
	}
	return f
}

// ---------- returns, panics, defers ----------

func (e *Engine) doReturn(st *State, rv Value) {
	fr := st.fr
	st.fr = fr.caller
	if fr.onRet != nil {
		fr.onRet(st, rv)
		return
	}
	// top level of a goroutine
	if st.gs != nil && st.cur != 0 {
		st.gs[st.cur].done = true
		st.fr = nil
		e.schedule(st)
		return
	}
	st.fr = nil
	e.endPath(st, "return", "")
}

func (e *Engine) mkDeferred(st *State, c *ssa.CallCommon) Deferred {
	var d Deferred
	for _, a := range c.Args {
		d.Args = append(d.Args, e.val(st, a))
	}
	if c.IsInvoke() {
		d.Recv = e.val(st, c.Value)
		d.Method = c.Method
		return d
	}
	fv, ok := e.val(st, c.Value).(FuncVal)
	if !ok {
		unsup("deferred call of non-function")
	}
	d.Fn = fv
	return d
}

func (e *Engine) invokeDeferred(st *State, d Deferred, k func(*State, Value)) bool {
	if d.Method != nil {
		return e.invokeMethod(st, d.Recv, d.Method, d.Args, nil, k)
	}
	return e.invoke(st, d.Fn, d.Args, nil, k)
}

// doPanic starts (or continues) unwinding
func (e *Engine) doPanic(st *State, v Value, site, kind string) {
	st.panic = &PanicInfo{Val: v, Site: site, Kind: kind}
	e.unwind(st)
}

func (e *Engine) unwind(st *State) {
	for st.fr != nil {
		fr := st.fr
		if fr.tolerant {
			unsup("panic during package initialisation")
		}
		if n := len(fr.defers); n > 0 {
			d := fr.defers[n-1]
			fr.defers = fr.defers[:n-1]
			target := fr
			e.invokeDeferred(st, d, func(s *State, rv Value) {
				// s.fr is (the clone of) target here
				if s.panic == nil {
					// recovered: the function that deferred the call returns normally
					f := s.fr
					if f.fn.Recover != nil {
						f.prev = f.blk
						f.blk = f.fn.Recover
						f.pc = 0
						return
					}
					e.doReturn(s, zeroResults(f.fn))
					return
				}
				e.unwind(s)
			})
			_ = target
			return
		}
		// drop frame
		st.fr = fr.caller
	}
	// uncaught
	p := st.panic
	e.reportFinding(st, "panic", p.Kind, p.Site)
	e.endPath(st, "panic", p.Site)
}

func zeroResults(fn *ssa.Function) Value {
	res := fn.Signature.Results()
	switch res.Len() {
	case 0:
		return nil
	case 1:
		return zeroValue(res.At(0).Type())
	}
	t := make(TupleVal, res.Len())
	for i := range t {
		t[i] = zeroValue(res.At(i).Type())
	}
	return t
}

// ---------- memory ----------

func (e *Engine) load(st *State, p PtrVal) Value {
	o := st.heap[p.Obj]
	if o == nil {
		unsup("load from unknown object")
	}
	v := o.V
	for _, pe := range p.Path {
		v = e.getElem(st, v, pe)
	}
	return v
}

func (e *Engine) getElem(st *State, v Value, pe PathElem) Value {
	switch a := v.(type) {
	case StructVal:
		if pe.Idx != nil {
			unsup("index into struct")
		}
		return a.F[pe.Field]
	case ArrayVal:
		if pe.Idx == nil {
			unsup("field of array")
		}
		if !pe.Idx.K {
			// ite chain for term elements
			return e.iteChain(a.E, pe.Idx)
		}
		i := int(pe.Idx.I.Int64())
		if i < 0 || i >= len(a.E) {
			unsup("array element %d out of range %d", i, len(a.E))
		}
		return a.E[i]
	case SymArrVal:
		if pe.Idx == nil {
			unsup("field of symbolic array")
		}
		return e.selectArr(a, pe.Idx)
	case OpaqueVal:
		return OpaqueVal{a.Desc + ".elem"}
	}
	unsup("getElem on %s", describe(v))
	return nil
}

func (e *Engine) iteChain(elems []Value, idx *Term) Value {
	if len(elems) == 0 {
		unsup("symbolic index into empty array")
	}
	var acc *Term
	for i := len(elems) - 1; i >= 0; i-- {
		t, ok := elems[i].(*Term)
		if !ok {
			unsup("symbolic index into array of %s", describe(elems[i]))
		}
		if acc == nil {
			acc = t
		} else {
			acc = Ite(Eq(idx, KInt64(int64(i))), t, acc)
		}
	}
	return e.name(acc)
}

// arrSMT returns the SMT array term of an integer array (spelling out a concrete vector)
func (e *Engine) arrSMT(a SymArrVal) *Term {
	if a.C == nil {
		return a.A
	}
	cur := constZeroArr
	n := 0
	for i, v := range a.C {
		if v.K && v.I.Sign() == 0 {
			continue
		}
		cur = StoreT(cur, KInt64(int64(i)), v)
		n++
		if n%16 == 0 {
			cur = e.nameArr(cur)
		}
	}
	if cur == constZeroArr {
		return cur
	}
	return e.nameArr(cur)
}

func (e *Engine) nameArr(t *Term) *Term {
	if strings.HasPrefix(t.S, "arr!") {
		return t
	}
	n := e.fresh("arr")
	e.sol.Declare(n, SArr)
	e.sol.Assert(&Term{S: "(= " + n + " " + t.S + ")", Sort: SBool})
	return Var(n, SArr)
}

func (e *Engine) selectArr(a SymArrVal, idx *Term) Value {
	ii := intInfoOf(a.Elem)
	if a.C != nil {
		if idx.K {
			i := idx.I.Int64()
			if i < 0 || i >= int64(len(a.C)) {
				unsup("concrete array index %d out of range %d", i, len(a.C))
			}
			return a.C[i]
		}
		if len(a.C) <= 24 {
			el := make([]Value, len(a.C))
			for i, c := range a.C {
				el[i] = c
			}
			return e.iteChain(el, idx)
		}
		t := e.name(Select(e.arrSMT(a), idx))
		return &Term{S: t.S, Sort: SInt, Lo: ii.lo, Hi: ii.hi}
	}
	if a.A == constZeroArr {
		return KInt64(0)
	}
	t := Select(a.A, idx)
	r := e.name(t)
	r = &Term{S: r.S, Sort: SInt, Lo: ii.lo, Hi: ii.hi}
	if a.NeedRange {
		lo, hi := ii.lo, ii.hi
		if a.RLo != nil {
			lo, hi = a.RLo, a.RHi
			r.Lo, r.Hi = lo, hi
		}
		e.sol.Assert(And(Le(KInt(lo), &Term{S: r.S, Sort: SInt}), Le(&Term{S: r.S, Sort: SInt}, KInt(hi))))
	}
	return r
}

func (e *Engine) store(st *State, p PtrVal, v Value) {
	o := st.heap[p.Obj]
	if o == nil {
		unsup("store to unknown object")
	}
	nv := e.setPath(st, o.V, p.Path, v)
	st.heap[p.Obj] = &Obj{V: nv, M: o.M, T: o.T}
}

func (e *Engine) setPath(st *State, cur Value, path []PathElem, v Value) Value {
	if len(path) == 0 {
		return v
	}
	pe := path[0]
	switch a := cur.(type) {
	case StructVal:
		nf := append([]Value(nil), a.F...)
		nf[pe.Field] = e.setPath(st, a.F[pe.Field], path[1:], v)
		return StructVal{F: nf}
	case ArrayVal:
		if pe.Idx == nil || !pe.Idx.K {
			// conditional update of every element (term elements only)
			if pe.Idx != nil && len(path) == 1 {
				ne := make([]Value, len(a.E))
				nvt, ok := v.(*Term)
				if ok {
					for i := range a.E {
						old, ok2 := a.E[i].(*Term)
						if !ok2 {
							unsup("symbolic store into array of %s", describe(a.E[i]))
						}
						ne[i] = e.name(Ite(Eq(pe.Idx, KInt64(int64(i))), nvt, old))
					}
					return ArrayVal{E: ne}
				}
			}
			unsup("symbolic index store into generic array")
		}
		i := int(pe.Idx.I.Int64())
		ne := append([]Value(nil), a.E...)
		ne[i] = e.setPath(st, a.E[i], path[1:], v)
		return ArrayVal{E: ne}
	case SymArrVal:
		if len(path) != 1 || pe.Idx == nil {
			unsup("nested store into symbolic array")
		}
		vt, ok := v.(*Term)
		if !ok {
			unsup("store of %s into integer array", describe(v))
		}
		if a.C != nil && pe.Idx.K {
			i := pe.Idx.I.Int64()
			if i < 0 || i >= int64(len(a.C)) {
				unsup("concrete array store index %d out of range %d", i, len(a.C))
			}
			nc := append([]*Term(nil), a.C...)
			nc[i] = vt
			return SymArrVal{N: a.N, Elem: a.Elem, C: nc}
		}
		na := e.nameArr(StoreT(e.arrSMT(a), pe.Idx, vt))
		return SymArrVal{A: na, N: a.N, Elem: a.Elem, NeedRange: a.NeedRange}
	}
	unsup("setPath on %s", describe(cur))
	return nil
}

// ---------- unary / binary ----------

func (e *Engine) unop(st *State, x *ssa.UnOp) bool {
	fr := st.fr
	v := e.val(st, x.X)
	switch x.Op {
	case token.MUL: // load
		p, ok := v.(PtrVal)
		if !ok {
			if o, ok := v.(OpaqueVal); ok {
				fr.locals[x] = OpaqueVal{"*" + o.Desc}
				fr.pc++
				return true
			}
			unsup("load through %s", describe(v))
		}
		if p.Obj == 0 {
			e.doPanic(st, OpaqueVal{"nil pointer dereference"}, "nil-deref @ "+e.pos(x), "nil")
			return true
		}
		fr.locals[x] = e.load(st, p)
	case token.NOT:
		fr.locals[x] = Not(v.(*Term))
	case token.SUB:
		if f, ok := v.(FloatVal); ok {
			fr.locals[x] = e.fneg(f)
		} else {
			fr.locals[x] = e.norm(Neg(v.(*Term)), x.Type())
		}
	case token.XOR:
		t := v.(*Term)
		ii := intInfoOf(x.Type())
		if ii.signed {
			fr.locals[x] = e.norm(Sub(KInt64(-1), t), x.Type())
		} else {
			fr.locals[x] = Sub(KInt(ii.hi), t)
		}
	case token.ARROW:
		return e.chanRecv(st, x)
	default:
		unsup("unop %s", x.Op)
	}
	fr.pc++
	return true
}

// norm wraps a mathematical integer into the range of Go type t
func (e *Engine) norm(t *Term, typ types.Type) *Term {
	ii := intInfoOf(typ)
	if ii == nil {
		return t
	}
	if t.K {
		return KInt(wrapBig(t.I, ii))
	}
	if t.Lo != nil && t.Hi != nil && t.Lo.Cmp(ii.lo) >= 0 && t.Hi.Cmp(ii.hi) <= 0 {
		return t
	}
	// ask the solver whether the value can leave the range at all
	out := Or(Lt(stripFacts(t), KInt(ii.lo)), Gt(stripFacts(t), KInt(ii.hi)))
	if r := e.ask(out); r == "unsat" {
		nt := *t
		nt.Lo, nt.Hi = maxBigN(t.Lo, ii.lo), minBigN(t.Hi, ii.hi)
		return &nt
	}
	e.res.Intrinsics["<integer wrap-around modelled>"]++
	m := pow2(ii.bits)
	var w *Term
	if ii.signed {
		h := pow2(ii.bits - 1)
		w = Sub(ModK(Add(t, KInt(h)), m), KInt(h))
	} else {
		w = ModK(t, m)
	}
	w = e.name(w)
	nw := *w
	nw.Lo, nw.Hi = ii.lo, ii.hi
	return &nw
}

func maxBigN(a, b *big.Int) *big.Int {
	if a == nil {
		return b
	}
	return maxBig(a, b)
}
func minBigN(a, b *big.Int) *big.Int {
	if a == nil {
		return b
	}
	return minBig(a, b)
}

func stripFacts(t *Term) *Term {
	if t.K {
		return t
	}
	return &Term{S: t.S, Sort: t.Sort}
}

func wrapBig(i *big.Int, ii *intInfo) *big.Int {
	if i.Cmp(ii.lo) >= 0 && i.Cmp(ii.hi) <= 0 {
		return i
	}
	m := pow2(ii.bits)
	r := new(big.Int).Mod(i, m)
	if ii.signed && r.Cmp(ii.hi) > 0 {
		r.Sub(r, m)
	}
	return r
}

func (e *Engine) binopInstr(st *State, x *ssa.BinOp) bool {
	fr := st.fr
	a, b := e.val(st, x.X), e.val(st, x.Y)
	// integer division / remainder: division by zero check
	if (x.Op == token.QUO || x.Op == token.REM) && intInfoOf(x.X.Type()) != nil {
		bt := b.(*Term)
		return e.rtCheck(st, Eq(bt, KInt64(0)), "integer divide by zero", x, func(s *State) {
			s.fr.locals[x] = e.binop(s, x.Op, a, b, x.X.Type(), x.Y.Type(), x.Type())
			s.fr.pc++
		})
	}
	if (x.Op == token.SHL || x.Op == token.SHR) && intInfoOf(x.Y.Type()) != nil && intInfoOf(x.Y.Type()).signed {
		bt := b.(*Term)
		return e.rtCheck(st, Lt(bt, KInt64(0)), "negative shift amount", x, func(s *State) {
			s.fr.locals[x] = e.binop(s, x.Op, a, b, x.X.Type(), x.Y.Type(), x.Type())
			s.fr.pc++
		})
	}
	fr.locals[x] = e.binop(st, x.Op, a, b, x.X.Type(), x.Y.Type(), x.Type())
	fr.pc++
	return true
}

func (e *Engine) binop(st *State, op token.Token, a, b Value, ta, tb, tr types.Type) Value {
	if _, ok := a.(OpaqueVal); ok {
		return OpaqueVal{"binop"}
	}
	if _, ok := b.(OpaqueVal); ok {
		return OpaqueVal{"binop"}
	}
	switch op {
	case token.EQL:
		return e.equal(st, a, b, ta)
	case token.NEQ:
		return Not(e.equal(st, a, b, ta))
	}
	if isFloat(ta) {
		return e.fbinop(op, a.(FloatVal), b.(FloatVal))
	}
	if isString(ta) {
		as, bs := e.toSMTString(st, a), e.toSMTString(st, b)
		switch op {
		case token.ADD:
			r := e.name(Concat(as, bs))
			if o, ok := e.ipStrOrigin[as.S]; ok && o.suffix == "" && bs.K && !r.K {
				e.ipStrOrigin[r.S] = ipOrigin{b: o.b, suffix: bs.Str}
			}
			return r
		case token.LSS:
			return Lt(as, bs)
		case token.LEQ:
			return Le(as, bs)
		case token.GTR:
			return Lt(bs, as)
		case token.GEQ:
			return Le(bs, as)
		}
		unsup("string binop %s", op)
	}
	at, ok1 := a.(*Term)
	bt, ok2 := b.(*Term)
	if !ok1 || !ok2 {
		unsup("binop %s on %s, %s", op, describe(a), describe(b))
	}
	if isBool(ta) {
		switch op {
		case token.AND:
			return And(at, bt)
		case token.OR:
			return Or(at, bt)
		case token.XOR:
			return Not(Eq(at, bt))
		}
		unsup("bool binop %s", op)
	}
	ii := intInfoOf(ta)
	if ii == nil {
		unsup("binop %s on type %s", op, ta)
	}
	switch op {
	case token.LSS:
		return Lt(at, bt)
	case token.LEQ:
		return Le(at, bt)
	case token.GTR:
		return Gt(at, bt)
	case token.GEQ:
		return Ge(at, bt)
	case token.ADD:
		return e.norm(e.name(Add(at, bt)), tr)
	case token.SUB:
		return e.norm(e.name(Sub(at, bt)), tr)
	case token.MUL:
		return e.norm(e.name(Mul(at, bt)), tr)
	case token.QUO:
		return e.norm(e.name(e.truncDiv(at, bt)), tr)
	case token.REM:
		return e.norm(e.name(e.truncRem(at, bt)), tr)
	case token.SHL:
		if !bt.K {
			return e.symShift(at, bt, tr, true)
		}
		k := int(bt.I.Int64())
		if k >= ii.bits {
			return KInt64(0)
		}
		return e.norm(e.name(Mul(at, KInt(pow2(k)))), tr)
	case token.SHR:
		if !bt.K {
			return e.symShift(at, bt, tr, false)
		}
		k := int(bt.I.Int64())
		if k >= ii.bits {
			if ii.signed {
				return e.name(Ite(Lt(at, KInt64(0)), KInt64(-1), KInt64(0)))
			}
			return KInt64(0)
		}
		return e.name(DivK(at, pow2(k))) // floor division == arithmetic shift
	case token.AND:
		return e.bitAnd(at, bt, ii)
	case token.OR:
		// x|y = x + y - (x&y)
		if disjointBits(at, bt) {
			return e.name(Add(at, bt))
		}
		return e.norm(e.name(Sub(Add(at, bt), e.bitAnd(at, bt, ii))), tr)
	case token.XOR:
		return e.norm(e.name(Sub(Add(at, bt), Mul(KInt64(2), e.bitAnd(at, bt, ii)))), tr)
	case token.AND_NOT:
		return e.norm(e.name(Sub(at, e.bitAnd(at, bt, ii))), tr)
	}
	unsup("binop %s", op)
	return nil
}

func (e *Engine) symShift(a, k *Term, tr types.Type, left bool) *Term {
	ii := intInfoOf(tr)
	// ite chain over shift counts 0..bits-1
	var acc *Term
	if left {
		acc = KInt64(0)
	} else if ii.signed {
		acc = Ite(Lt(a, KInt64(0)), KInt64(-1), KInt64(0))
	} else {
		acc = KInt64(0)
	}
	hi := ii.bits - 1
	if k.Hi != nil && k.Hi.IsInt64() && int(k.Hi.Int64()) < hi {
		hi = int(k.Hi.Int64())
		acc = KInt64(0) // unreachable default
	}
	for c := hi; c >= 0; c-- {
		var v *Term
		if left {
			v = Mul(a, KInt(pow2(c)))
		} else {
			v = DivK(a, pow2(c))
		}
		acc = Ite(Eq(k, KInt64(int64(c))), v, acc)
	}
	return e.norm(e.name(acc), tr)
}

// are the possibly-set bits of a and b disjoint (both non-negative)?
func disjointBits(a, b *Term) bool {
	ab, bb := a.bitsBound(), b.bitsBound()
	if ab < 0 || bb < 0 {
		return false
	}
	return a.TZ >= bb || b.TZ >= ab
}

// Go's truncated division on mathematical integers
func (e *Engine) truncDiv(a, b *Term) *Term {
	if a.K && b.K {
		return KInt(new(big.Int).Quo(a.I, b.I))
	}
	aNonNeg := a.Lo != nil && a.Lo.Sign() >= 0
	if b.K && b.I.Sign() > 0 {
		if aNonNeg {
			return DivK(a, b.I)
		}
		return Ite(Ge(a, KInt64(0)), DivK(a, b.I), Neg(DivK(Neg(a), b.I)))
	}
	if b.K && b.I.Sign() < 0 {
		nb := new(big.Int).Neg(b.I)
		return Neg(e.truncDiv(a, KInt(nb)))
	}
	// symbolic divisor: sign case split with SMT (Euclidean) div
	absA := Ite(Ge(a, KInt64(0)), a, Neg(a))
	absB := Ite(Ge(b, KInt64(0)), b, Neg(b))
	q := DivT(absA, absB)
	return Ite(Eq(Ge(a, KInt64(0)), Ge(b, KInt64(0))), q, Neg(q))
}

func (e *Engine) truncRem(a, b *Term) *Term {
	if a.K && b.K {
		return KInt(new(big.Int).Rem(a.I, b.I))
	}
	aNonNeg := a.Lo != nil && a.Lo.Sign() >= 0
	if b.K {
		nb := new(big.Int).Abs(b.I)
		if aNonNeg {
			return ModK(a, nb)
		}
		return Ite(Ge(a, KInt64(0)), ModK(a, nb), Neg(ModK(Neg(a), nb)))
	}
	absA := Ite(Ge(a, KInt64(0)), a, Neg(a))
	absB := Ite(Ge(b, KInt64(0)), b, Neg(b))
	m := ModT(absA, absB)
	return Ite(Ge(a, KInt64(0)), m, Neg(m))
}

// bitwise and of in-range values of an integer type
func (e *Engine) bitAnd(a, b *Term, ii *intInfo) *Term {
	if a.K && b.K {
		// two's complement and
		m := pow2(ii.bits)
		x := new(big.Int).Mod(a.I, m)
		y := new(big.Int).Mod(b.I, m)
		return KInt(wrapBig(new(big.Int).And(x, y), ii))
	}
	if a.K {
		a, b = b, a
	}
	if b.K {
		m := pow2(ii.bits)
		mask := new(big.Int).Mod(b.I, m) // as unsigned bit pattern
		if mask.Sign() == 0 {
			return KInt64(0)
		}
		// decompose mask into runs of ones
		var sum *Term = KInt64(0)
		i := 0
		full := true
		for i < ii.bits {
			if mask.Bit(i) == 0 {
				i++
				full = false
				continue
			}
			j := i
			for j < ii.bits && mask.Bit(j) == 1 {
				j++
			}
			// bits i..j-1
			part := Mul(ModK(DivK(a, pow2(i)), pow2(j-i)), KInt(pow2(i)))
			sum = Add(sum, part)
			i = j
		}
		if full {
			return a
		}
		r := e.name(sum)
		// result pattern is an unsigned value < 2^bits; for signed types with the sign bit in the mask re-wrap
		if ii.signed && mask.Bit(ii.bits-1) == 1 {
			h := pow2(ii.bits - 1)
			return e.name(Sub(ModK(Add(r, KInt(h)), m), KInt(h)))
		}
		return r
	}
	// both symbolic
	if ab, bb := a.bitsBound(), b.bitsBound(); ab >= 0 && bb >= 0 {
		if a.TZ >= bb || b.TZ >= ab {
			return KInt64(0)
		}
		if ab <= 1 && bb <= 1 {
			return e.name(Mul(a, b))
		}
	}
	e.res.Intrinsics["<int2bv detour>"]++
	w := ii.bits
	s := fmt.Sprintf("(bv2int (bvand ((_ int2bv %d) %s) ((_ int2bv %d) %s)))", w, a.S, w, b.S)
	r := &Term{S: s, Sort: SInt, Lo: big0, Hi: new(big.Int).Sub(pow2(w), big1)}
	if ii.signed {
		h := pow2(w - 1)
		return e.name(Sub(ModK(Add(r, KInt(h)), pow2(w)), KInt(h)))
	}
	return e.name(r)
}

// ---------- equality ----------

func (e *Engine) equal(st *State, a, b Value, t types.Type) *Term {
	switch x := a.(type) {
	case *Term:
		switch y := b.(type) {
		case *Term:
			return Eq(x, y)
		case StrBytes:
			return e.strBytesEq(st, y, x)
		}
	case StrBytes:
		switch y := b.(type) {
		case *Term:
			return e.strBytesEq(st, x, y)
		case StrBytes:
			if x.Obj == y.Obj || e.sameArray(st, x.Obj, y.Obj) {
				// same backing array: equal offsets and lengths imply equality (sufficient, not necessary)
				return And(Eq(x.Len, y.Len), Or(Eq(x.Len, KInt64(0)), Eq(x.Off, y.Off)))
			}
			return Eq(e.toSMTString(st, x), e.toSMTString(st, y))
		}
	case FloatVal:
		return e.fcmp(token.EQL, x, b.(FloatVal))
	case PtrVal:
		y, ok := b.(PtrVal)
		if !ok {
			unsup("pointer compared with %s", describe(b))
		}
		return ptrEq(x, y)
	case SliceVal:
		y := b.(SliceVal)
		// only comparison with nil is legal
		if y.Obj == 0 && y.Len.K {
			return KBool(x.Obj == 0)
		}
		if x.Obj == 0 {
			return KBool(y.Obj == 0)
		}
	case MapVal:
		y := b.(MapVal)
		return KBool(x.Obj == y.Obj)
	case ChanVal:
		y := b.(ChanVal)
		return KBool(x.Obj == y.Obj)
	case FuncVal:
		y := b.(FuncVal)
		xn := x.Fn == nil && x.Name == ""
		yn := y.Fn == nil && y.Name == ""
		if xn || yn {
			return KBool(xn == yn)
		}
	case IfaceVal:
		y, ok := b.(IfaceVal)
		if !ok {
			unsup("interface compared with %s", describe(b))
		}
		if x.T == nil || y.T == nil {
			return KBool(x.T == nil && y.T == nil)
		}
		if !types.Identical(x.T, y.T) {
			return tFalse
		}
		return e.equal(st, x.V, y.V, x.T)
	case StructVal:
		y := b.(StructVal)
		st2 := t.Underlying().(*types.Struct)
		var cs []*Term
		for i := range x.F {
			cs = append(cs, e.equal(st, x.F[i], y.F[i], st2.Field(i).Type()))
		}
		return And(cs...)
	case ArrayVal:
		y := b.(ArrayVal)
		et := t.Underlying().(*types.Array).Elem()
		var cs []*Term
		for i := range x.E {
			cs = append(cs, e.equal(st, x.E[i], y.E[i], et))
		}
		return And(cs...)
	case RegexpVal:
		if y, ok := b.(RegexpVal); ok {
			return KBool(x.Pat == y.Pat)
		}
	}
	unsup("equality of %s and %s", describe(a), describe(b))
	return nil
}

// do two objects hold the very same array value?
func (e *Engine) sameArray(st *State, a, b int) bool {
	if a == 0 || b == 0 {
		return false
	}
	x, ok1 := st.heap[a].V.(SymArrVal)
	y, ok2 := st.heap[b].V.(SymArrVal)
	if !ok1 || !ok2 {
		return false
	}
	if x.C != nil || y.C != nil {
		return x.C != nil && y.C != nil && len(x.C) == len(y.C) && len(x.C) > 0 && &x.C[0] == &y.C[0]
	}
	return x.A.S == y.A.S
}

func ptrEq(x, y PtrVal) *Term {
	if x.Obj != y.Obj || len(x.Path) != len(y.Path) {
		return tFalse
	}
	var cs []*Term
	for i := range x.Path {
		a, b := x.Path[i], y.Path[i]
		if (a.Idx == nil) != (b.Idx == nil) {
			return tFalse
		}
		if a.Idx == nil {
			if a.Field != b.Field {
				return tFalse
			}
			continue
		}
		cs = append(cs, Eq(a.Idx, b.Idx))
	}
	return And(cs...)
}

// equality of a byte-array backed string with an SMT string
func (e *Engine) strBytesEq(st *State, x StrBytes, y *Term) *Term {
	if y.K {
		if x.Obj == 0 {
			return KBool(y.Str == "")
		}
		arr, ok := st.heap[x.Obj].V.(SymArrVal)
		if !ok {
			unsup("string over non-byte array")
		}
		lenEq := Eq(x.Len, KInt64(int64(len(y.Str))))
		if lenEq.K && !lenEq.B {
			return tFalse
		}
		cs := []*Term{lenEq}
		for i := 0; i < len(y.Str); i++ {
			idx := Add(x.Off, KInt64(int64(i)))
			if arr.C != nil && idx.K && idx.I.Int64() >= int64(len(arr.C)) {
				// beyond the array: the length equation above is already false on this path
				return tFalse
			}
			cs = append(cs, Eq(e.selectArr(arr, idx).(*Term), KInt64(int64(y.Str[i]))))
		}
		return And(cs...)
	}
	return Eq(e.toSMTString(st, x), y)
}

// toSMTString converts any string value to an SMT String term (bounded materialisation
// for byte-array backed strings)
func (e *Engine) toSMTString(st *State, v Value) *Term {
	switch x := v.(type) {
	case *Term:
		if x.Sort != SStr {
			unsup("expected string, got %s", x.S)
		}
		return x
	case StrBytes:
		if x.Obj == 0 {
			return KStr("")
		}
		arr, ok := st.heap[x.Obj].V.(SymArrVal)
		if !ok {
			unsup("string over non-byte array")
		}
		if arr.FromStr != nil && x.Off.K && x.Off.I.Sign() == 0 && x.Len.S == arr.N.S {
			return arr.FromStr // string([]byte(s)) of an unmodified copy
		}
		if x.Len.K && x.Off.K {
			n := int(x.Len.I.Int64())
			parts := make([]*Term, 0, n)
			for i := 0; i < n; i++ {
				c := e.selectArr(arr, Add(x.Off, KInt64(int64(i)))).(*Term)
				parts = append(parts, StrFromCode(c))
			}
			return e.name(Concat(parts...))
		}
		k := e.materialBound(x.Len)
		s := e.freshVar("str", SStr)
		e.sol.Assert(Eq(StrLen(s), x.Len))
		for i := 0; i < k; i++ {
			c := e.selectArr(arr, Add(x.Off, KInt64(int64(i)))).(*Term)
			e.sol.Assert(Implies(Lt(KInt64(int64(i)), x.Len), Eq(StrAtCode(s, KInt64(int64(i))), c)))
		}
		s.lenHint = x.Len
		return s
	case OpaqueVal:
		unsup("opaque string %s", x.Desc)
	}
	unsup("not a string: %s", describe(v))
	return nil
}

// upper bound used when a symbolic-length byte sequence has to be spelled out
func (e *Engine) materialBound(n *Term) int {
	if n.Hi != nil && n.Hi.IsInt64() && n.Hi.Int64() <= 256 {
		return int(n.Hi.Int64())
	}
	k := e.cfg.Params["MATERIALIZE"]
	if k == 0 {
		k = 16
	}
	// unwinding assertion: the length cannot exceed the bound
	if r := e.ask(Gt(n, KInt64(int64(k)))); r != "unsat" {
		unsup("UNWIND materialisation bound %d too small for %s", k, n.S)
	}
	return k
}
