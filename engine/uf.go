package main

// Uninterpreted functions with concrete refinement: pure library functions whose code is
// out of reach are SMT functions; every application is recorded, and a model is only
// accepted after the real function (called natively, in this process) agrees with the
// model on every recorded application. Disagreements become ground facts and the query
// is re-solved. unsat with UFs (+ true facts) holds for the real function.

import (
	"fmt"
	"os"
	"math/big"
	"strings"
)

type UFDef struct {
	Name   string
	Args   []Sort
	Res    []Sort
	Oracle func(args []any) []any // any = string | *big.Int | bool
}

type UFApp struct {
	Def  *UFDef
	Args []*Term
	Res  []*Term
	// Shapes restricts the application to the argument shapes for which the model is exact
	// (used only to steer the search for a counterexample)
	Shapes *Term
}

var ufDefs = map[string]*UFDef{}
var ufOrder []string

func defUF(name string, args, res []Sort, oracle func([]any) []any) {
	ufDefs[name] = &UFDef{Name: name, Args: args, Res: res, Oracle: oracle}
	ufOrder = append(ufOrder, name)
}

func (e *Engine) declareUFs() {
	for _, n := range ufOrder {
		d := ufDefs[n]
		var as []string
		for _, a := range d.Args {
			as = append(as, a.smt())
		}
		for i, r := range d.Res {
			e.sol.DeclareRaw(fmt.Sprintf("(declare-fun uf_%s_%d (%s) %s)", n, i, strings.Join(as, " "), r.smt()))
		}
	}
}

func toAny(t *Term) any {
	switch t.Sort {
	case SStr:
		return t.Str
	case SInt:
		return t.I
	case SBool:
		return t.B
	}
	return nil
}

func fromAny(v any) *Term {
	switch x := v.(type) {
	case string:
		return KStr(x)
	case *big.Int:
		return KInt(x)
	case int:
		return KInt64(int64(x))
	case bool:
		return KBool(x)
	}
	panic("fromAny")
}

// ufCall applies an uninterpreted function; concrete arguments are evaluated natively.
func (e *Engine) ufCall(st *State, name string, args ...*Term) []*Term {
	d := ufDefs[name]
	if d == nil {
		unsup("unknown UF %s", name)
	}
	allK := true
	for _, a := range args {
		if !a.K {
			allK = false
		}
	}
	if allK {
		in := make([]any, len(args))
		for i, a := range args {
			in[i] = toAny(a)
		}
		out := d.Oracle(in)
		res := make([]*Term, len(out))
		for i, o := range out {
			res[i] = fromAny(o)
		}
		return res
	}
	e.res.Intrinsics["<UF+refinement> "+name]++
	res := make([]*Term, len(d.Res))
	for i, s := range d.Res {
		r := e.freshVar("uf_"+name, s)
		e.sol.Assert(&Term{S: "(= " + r.S + " " + app(fmt.Sprintf("uf_%s_%d", name, i), args...) + ")", Sort: SBool})
		res[i] = r
	}
	st.ufApps = append(st.ufApps, &UFApp{Def: d, Args: args, Res: res})
	return res
}

func sexpToAny(x *Sexp, s Sort) (any, bool) {
	switch s {
	case SStr:
		cps := smtUnescape(x.Atom)
		b := make([]byte, len(cps))
		for i, c := range cps {
			if c > 255 {
				return nil, false
			}
			b[i] = byte(c)
		}
		return string(b), true
	case SInt:
		i, ok := new(big.Int).SetString(x.Num(), 10)
		return i, ok
	case SBool:
		return x.Atom == "true", true
	}
	return nil, false
}

func anyEq(a, b any) bool {
	switch x := a.(type) {
	case string:
		y, ok := b.(string)
		return ok && x == y
	case bool:
		y, ok := b.(bool)
		return ok && x == y
	case *big.Int:
		switch y := b.(type) {
		case *big.Int:
			return x.Cmp(y) == 0
		case int:
			return x.Cmp(big.NewInt(int64(y))) == 0
		}
	case int:
		if y, ok := b.(*big.Int); ok {
			return y.Cmp(big.NewInt(int64(x))) == 0
		}
		if y, ok := b.(int); ok {
			return x == y
		}
	}
	return false
}

// refine checks the model of the current (sat) query against the real functions.
// It returns the ground facts that contradict the model (nil = model is consistent),
// or ok=false when the model cannot be evaluated.
func (e *Engine) refineFacts(st *State) (facts []*Term, ok bool) {
	for _, a := range st.ufApps {
		var exprs []string
		for _, t := range a.Args {
			exprs = append(exprs, t.S)
		}
		for _, t := range a.Res {
			exprs = append(exprs, t.S)
		}
		vals, good := e.sol.Values(exprs)
		if !good {
			return nil, false
		}
		in := make([]any, len(a.Args))
		for i := range a.Args {
			v, g := sexpToAny(vals[i], a.Args[i].Sort)
			if !g {
				// a character outside the byte range: force bytes
				return []*Term{{S: "(str.in_re " + a.Args[i].S + " (re.* (re.range \"\\u{0}\" \"\\u{ff}\")))", Sort: SBool}}, true
			}
			in[i] = v
		}
		real := a.Def.Oracle(in)
		for i := range a.Res {
			mv, g := sexpToAny(vals[len(a.Args)+i], a.Res[i].Sort)
			if !g || !anyEq(mv, real[i]) {
				// fact: uf(c...) = real
				cargs := make([]*Term, len(in))
				for j, v := range in {
					cargs[j] = fromAny(v)
				}
				for k := range a.Res {
					facts = append(facts, &Term{S: "(= " + app(fmt.Sprintf("uf_%s_%d", a.Def.Name, k), cargs...) + " " + fromAny(real[k]).S + ")", Sort: SBool})
				}
				break
			}
		}
	}
	return facts, true
}

// satRefined asks stack ∧ extra with refinement. Result: "sat" (model consistent with the
// real functions; solver left in the sat state, EndQuery pending), "unsat", or "unknown".
// steering constraints restrict the search for a counterexample to the region where the
// library models are exact (dotted-quad addresses, bracket-free host:port). They are only used
// to find a model — which is validated against the real functions and replayed — never to
// discharge an obligation.
func (e *Engine) steering(st *State) *Term {
	var cs []*Term
	for _, a := range st.ufApps {
		switch a.Def.Name {
		case "parseip", "parsecidr":
			cs = append(cs, Not(StrContains(a.Args[0], KStr(":"))))
		case "splithostport":
			cs = append(cs, Not(StrContains(a.Args[0], KStr("["))), Not(StrContains(a.Args[0], KStr("]"))))
		}
	}
	if len(cs) == 0 {
		return nil
	}
	return And(cs...)
}

func (e *Engine) shapeSteering(st *State) *Term {
	var cs []*Term
	for _, a := range st.ufApps {
		if a.Shapes != nil {
			cs = append(cs, a.Shapes)
		}
	}
	if len(cs) == 0 {
		return nil
	}
	return And(cs...)
}

func (e *Engine) satRefined(st *State, extra *Term) string {
	if steer := e.shapeSteering(st); steer != nil {
		x := steer
		if extra != nil {
			x = And(extra, steer)
		}
		if r := e.satRefinedRounds(st, x, 6); r == "sat" {
			return r
		}
	}
	if steer := e.steering(st); steer != nil {
		x := steer
		if extra != nil {
			x = And(extra, steer)
		}
		if r := e.satRefinedRounds(st, x, 6); r == "sat" {
			return r
		}
	}
	return e.satRefinedRounds(st, extra, 10)
}

func (e *Engine) satRefinedRounds(st *State, extra *Term, rounds int) string {
	for round := 0; round < rounds; round++ {
		q := extra
		if len(e.ufFacts) > 0 {
			all := append([]*Term{}, e.ufFacts...)
			if extra != nil {
				all = append(all, extra)
			}
			q = And(all...)
		}
		r := e.sol.QueryFull(q)
		if e.sol.Verbose {
			fmt.Fprintln(os.Stderr, "REFINE round", round, "->", r)
		}
		if r != "sat" {
			e.sol.EndQuery()
			return r
		}
		if len(st.ufApps) == 0 {
			return "sat"
		}
		facts, ok := e.refineFacts(st)
		if !ok {
			e.sol.EndQuery()
			return "unknown"
		}
		if len(facts) == 0 {
			return "sat"
		}
		e.sol.EndQuery()
		e.res.Intrinsics["<UF refinement round>"]++
		if e.sol.Verbose {
			for _, f := range facts {
				fmt.Fprintln(os.Stderr, "REFINE", round, truncate(f.S, 200))
			}
		}
		for _, f := range facts {
			if !e.ufFactSet[f.S] {
				e.ufFactSet[f.S] = true
				e.ufFacts = append(e.ufFacts, f)
			}
		}
	}
	return "unknown"
}
