package main

import (
	"fmt"
	"go/types"
	"math/big"
	"strings"

	"golang.org/x/tools/go/ssa"
)

// Value is one of: *Term (bool, integer, SMT string), FloatVal, SliceVal, StrBytes,
// PtrVal, StructVal, ArrayVal, SymArrVal, MapVal, IfaceVal, FuncVal, TupleVal,
// ChanVal, OpaqueVal.
type Value interface{}

// FloatVal is a tagged real: Kind 0 finite (value V), 1 +Inf, 2 -Inf, 3 NaN.
type FloatVal struct {
	Kind *Term // SInt in 0..3
	V    *Term // SReal
}

type SliceVal struct {
	Obj           int // 0 = nil slice
	Off, Len, Cap *Term
}

// StrBytes is a Go string whose bytes live in a byte-array object (string(b[i:j])).
type StrBytes struct {
	Obj      int
	Off, Len *Term
}

type PathElem struct {
	Field int   // >= 0: struct field
	Idx   *Term // != nil: array element
}

type PtrVal struct {
	Obj  int // 0 = nil
	Path []PathElem
}

type StructVal struct{ F []Value }
type ArrayVal struct{ E []Value }

// SymArrVal is an integer-element array held as an SMT (Array Int Int).
type SymArrVal struct {
	A         *Term
	N         *Term       // number of elements
	Elem      types.Type  // element type
	NeedRange bool        // reads must be range-constrained (unconstrained input array)
	// C, when non-nil, is the authoritative element vector of a small fixed-size array that
	// has only been accessed at constant indices so far (A is unused then).
	C []*Term
	// optional tighter range for NeedRange arrays
	RLo, RHi *big.Int
	// FromStr: the array is an unmodified []byte(s) copy of this string
	FromStr *Term
}

const maxConcArr = 8192

func zeroConc(n int64) []*Term {
	c := make([]*Term, n)
	z := KInt64(0)
	for i := range c {
		c[i] = z
	}
	return c
}

type MapVal struct{ Obj int }
type MapEntry struct{ K, V Value }
type MapObj struct {
	E []MapEntry
}

type IfaceVal struct {
	T types.Type // nil = nil interface
	V Value
}

type FuncVal struct {
	Fn   *ssa.Function
	Bind []Value
	Name string // for intrinsics / builtins without body
}

type TupleVal []Value
type ChanVal struct{ Obj int }
type OpaqueVal struct{ Desc string }

// RegexpVal models *regexp.Regexp compiled from a constant pattern.
type RegexpVal struct{ Pat string }

type Obj struct {
	V Value   // cell content (StructVal, ArrayVal, SymArrVal, scalar ...)
	M *MapObj // for maps
	T types.Type
}

func isNilPtr(v Value) bool {
	p, ok := v.(PtrVal)
	return ok && p.Obj == 0
}

var nilPtr = PtrVal{}

func describe(v Value) string {
	switch x := v.(type) {
	case nil:
		return "<nil>"
	case *Term:
		return x.S
	case FloatVal:
		return "float{" + x.Kind.S + "," + x.V.S + "}"
	case SliceVal:
		if x.Obj == 0 {
			return "nil-slice"
		}
		return fmt.Sprintf("slice{#%d off=%s len=%s cap=%s}", x.Obj, x.Off, x.Len, x.Cap)
	case StrBytes:
		return fmt.Sprintf("strbytes{#%d off=%s len=%s}", x.Obj, x.Off, x.Len)
	case PtrVal:
		if x.Obj == 0 {
			return "nil-ptr"
		}
		return fmt.Sprintf("ptr{#%d %v}", x.Obj, x.Path)
	case StructVal:
		var p []string
		for _, f := range x.F {
			p = append(p, describe(f))
		}
		return "{" + strings.Join(p, ", ") + "}"
	case ArrayVal:
		return fmt.Sprintf("array[%d]", len(x.E))
	case SymArrVal:
		return "symarr " + x.A.S
	case MapVal:
		return fmt.Sprintf("map#%d", x.Obj)
	case IfaceVal:
		if x.T == nil {
			return "nil-iface"
		}
		return "iface{" + x.T.String() + ": " + describe(x.V) + "}"
	case FuncVal:
		if x.Fn != nil {
			return "func " + x.Fn.String()
		}
		return "func " + x.Name
	case TupleVal:
		var p []string
		for _, f := range x {
			p = append(p, describe(f))
		}
		return "(" + strings.Join(p, ", ") + ")"
	case OpaqueVal:
		return "opaque(" + x.Desc + ")"
	}
	return fmt.Sprintf("%T", v)
}

// ---------- integer types ----------

type intInfo struct {
	bits   int
	signed bool
	lo, hi *big.Int
}

var intInfos = map[types.BasicKind]*intInfo{}

func init() {
	mk := func(k types.BasicKind, bits int, signed bool) {
		ii := &intInfo{bits: bits, signed: signed}
		if signed {
			ii.lo = new(big.Int).Neg(pow2(bits - 1))
			ii.hi = new(big.Int).Sub(pow2(bits-1), big1)
		} else {
			ii.lo = big0
			ii.hi = new(big.Int).Sub(pow2(bits), big1)
		}
		intInfos[k] = ii
	}
	mk(types.Int8, 8, true)
	mk(types.Int16, 16, true)
	mk(types.Int32, 32, true)
	mk(types.Int64, 64, true)
	mk(types.Int, 64, true)
	mk(types.Uint8, 8, false)
	mk(types.Uint16, 16, false)
	mk(types.Uint32, 32, false)
	mk(types.Uint64, 64, false)
	mk(types.Uint, 64, false)
	mk(types.Uintptr, 64, false)
	mk(types.UntypedInt, 64, true)
	mk(types.UntypedRune, 32, true)
}

func intInfoOf(t types.Type) *intInfo {
	if b, ok := t.Underlying().(*types.Basic); ok {
		return intInfos[b.Kind()]
	}
	return nil
}

func isFloat(t types.Type) bool {
	b, ok := t.Underlying().(*types.Basic)
	return ok && b.Info()&types.IsFloat != 0
}
func isString(t types.Type) bool {
	b, ok := t.Underlying().(*types.Basic)
	return ok && b.Info()&types.IsString != 0
}
func isBool(t types.Type) bool {
	b, ok := t.Underlying().(*types.Basic)
	return ok && b.Info()&types.IsBoolean != 0
}

// integer-element arrays/slices are held as SMT arrays
func isIntElem(t types.Type) bool { return intInfoOf(t) != nil }

var constZeroArr = &Term{S: "((as const (Array Int Int)) 0)", Sort: SArr}

func fKonst(r *big.Rat) FloatVal { return FloatVal{Kind: KInt64(0), V: KReal(r)} }

// zero value of a type
func zeroValue(t types.Type) Value {
	switch u := t.Underlying().(type) {
	case *types.Basic:
		switch {
		case u.Info()&types.IsBoolean != 0:
			return tFalse
		case u.Info()&types.IsInteger != 0:
			return KInt64(0)
		case u.Info()&types.IsString != 0:
			return KStr("")
		case u.Info()&types.IsFloat != 0:
			return fKonst(new(big.Rat))
		case u.Kind() == types.UnsafePointer:
			return nilPtr
		case u.Kind() == types.UntypedNil:
			return nilPtr
		}
	case *types.Pointer:
		return nilPtr
	case *types.Slice:
		return SliceVal{Off: KInt64(0), Len: KInt64(0), Cap: KInt64(0)}
	case *types.Map:
		return MapVal{}
	case *types.Chan:
		return ChanVal{}
	case *types.Signature:
		return FuncVal{}
	case *types.Interface:
		return IfaceVal{}
	case *types.Struct:
		f := make([]Value, u.NumFields())
		for i := range f {
			f[i] = zeroValue(u.Field(i).Type())
		}
		return StructVal{F: f}
	case *types.Array:
		if isIntElem(u.Elem()) {
			if u.Len() <= maxConcArr {
				return SymArrVal{N: KInt64(u.Len()), Elem: u.Elem(), C: zeroConc(u.Len())}
			}
			return SymArrVal{A: constZeroArr, N: KInt64(u.Len()), Elem: u.Elem()}
		}
		e := make([]Value, u.Len())
		z := zeroValue(u.Elem())
		for i := range e {
			e[i] = z
		}
		return ArrayVal{E: e}
	case *types.Tuple:
		tv := make(TupleVal, u.Len())
		for i := range tv {
			tv[i] = zeroValue(u.At(i).Type())
		}
		return tv
	}
	return OpaqueVal{Desc: "zero of " + t.String()}
}
