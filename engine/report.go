package main

import (
	"bytes"
	"context"
	"encoding/json"
	"fmt"
	"os"
	"os/exec"
	"path/filepath"
	"regexp"
	"sort"
	"strings"
	"time"
)

// ---------- native replay ----------

type replayer struct {
	tmp     string
	ovFiles map[string]string
	bins    map[string]string
	errs    map[string]string
	n       int
}

func newReplayer(ovFiles map[string]string) *replayer {
	tmp, _ := os.MkdirTemp("", "vpreplay")
	return &replayer{tmp: tmp, ovFiles: ovFiles, bins: map[string]string{}, errs: map[string]string{}}
}

func (r *replayer) cleanup() { os.RemoveAll(r.tmp) }

var reHarnessFn = regexp.MustCompile(`(?m)^func (VPH_\w+)\(\)`)

func relPkg(pkg string) string {
	return strings.TrimPrefix(strings.TrimPrefix(pkg, modPath), "/")
}

func (r *replayer) build(pkg string) (string, error) {
	if b, ok := r.bins[pkg]; ok {
		if b == "" {
			return "", fmt.Errorf("%s", r.errs[pkg])
		}
		return b, nil
	}
	rel := relPkg(pkg)
	// harness functions of this package
	var names []string
	pkgName := ""
	for virt, real := range r.ovFiles {
		if filepath.Dir(virt) != filepath.Join(repoDir, rel) {
			continue
		}
		src, _ := os.ReadFile(real)
		for _, m := range reHarnessFn.FindAllSubmatch(src, -1) {
			names = append(names, string(m[1]))
		}
		if m := regexp.MustCompile(`(?m)^package (\w+)`).FindSubmatch(src); m != nil {
			pkgName = string(m[1])
		}
	}
	sort.Strings(names)
	var tb bytes.Buffer
	fmt.Fprintf(&tb, "//go:build verif\n\npackage %s\n\nimport (\n\t\"testing\"\n\n\t\"%s/internal/vp\"\n)\n\nfunc TestVPReplay(t *testing.T) {\n\tvp.RunReplay(t, map[string]func(){\n", pkgName, modPath)
	for _, n := range names {
		fmt.Fprintf(&tb, "\t\t%q: %s,\n", n, n)
	}
	fmt.Fprintf(&tb, "\t})\n}\n")
	tf := filepath.Join(r.tmp, "replay_"+sanitize(rel)+"_test.go")
	os.WriteFile(tf, tb.Bytes(), 0o644)
	repl := map[string]string{}
	for v, real := range r.ovFiles {
		repl[v] = real
	}
	repl[filepath.Join(repoDir, rel, "zz_vp_replay_test.go")] = tf
	oj, _ := json.Marshal(map[string]any{"Replace": repl})
	ovPath := filepath.Join(r.tmp, "overlay_"+sanitize(rel)+".json")
	os.WriteFile(ovPath, oj, 0o644)
	bin := filepath.Join(r.tmp, sanitize(rel)+".test")
	ctx, cancel := context.WithTimeout(context.Background(), 10*time.Minute)
	defer cancel()
	cmd := exec.CommandContext(ctx, "go", "test", "-c", "-tags", "verif", "-vet=off", "-overlay", ovPath, "-o", bin, pkg)
	cmd.Dir = repoDir
	cmd.Env = append(os.Environ(), "GOFLAGS=-mod=mod", "GOPROXY=off")
	out, err := cmd.CombinedOutput()
	if err != nil {
		r.bins[pkg] = ""
		r.errs[pkg] = fmt.Sprintf("go test -c failed: %v\n%s", err, out)
		return "", fmt.Errorf("%s", r.errs[pkg])
	}
	r.bins[pkg] = bin
	return bin, nil
}

func (r *replayer) replay(id, pkg string, f *Finding) {
	dir := filepath.Join(verifDir, "replays", id)
	os.MkdirAll(dir, 0o755)
	r.n++
	path := filepath.Join(dir, fmt.Sprintf("%s-%d.json", f.Harness, r.n))
	doc := map[string]any{"property": id, "harness": f.Harness, "pkg": pkg, "kind": f.Kind, "label": f.Label, "site": f.Site,
		"inputs": f.Inputs, "params": f.Params, "trace": f.Trace}
	b, _ := json.MarshalIndent(doc, "", " ")
	os.WriteFile(path, b, 0o644)
	f.Replay = path
	res, out := r.run(pkg, path)
	f.Note = res
	switch {
	case f.Kind == "assert" && res == "assert-fail "+f.Label:
		f.Status = "confirmed"
	case f.Kind == "panic" && strings.HasPrefix(res, "panic"):
		f.Status = "confirmed"
	default:
		f.Status = "unconfirmed"
		if res == "" {
			f.Note = "no result: " + truncate(out, 400)
		}
	}
}

func (r *replayer) run(pkg, path string) (string, string) {
	bin, err := r.build(pkg)
	if err != nil {
		return "", err.Error()
	}
	ctx, cancel := context.WithTimeout(context.Background(), 120*time.Second)
	defer cancel()
	cmd := exec.CommandContext(ctx, bin, "-test.run", "^TestVPReplay$", "-test.v")
	cmd.Dir = filepath.Join(repoDir, relPkg(pkg))
	cmd.Env = append(os.Environ(), "VP_REPLAY="+path)
	out, _ := cmd.CombinedOutput()
	for _, l := range strings.Split(string(out), "\n") {
		if i := strings.Index(l, "VP-RESULT: "); i >= 0 {
			return strings.TrimSpace(l[i+len("VP-RESULT: "):]), string(out)
		}
	}
	// a crash on another goroutine ends the process without a result line
	for _, l := range strings.Split(string(out), "\n") {
		if strings.HasPrefix(l, "panic: ") || strings.HasPrefix(l, "fatal error: ") {
			return "panic " + strings.TrimPrefix(l, "panic: "), string(out)
		}
	}
	return "", string(out)
}

func runReplayFile(path string) int {
	b, err := os.ReadFile(path)
	if err != nil {
		fmt.Println("ERROR:", err)
		return 2
	}
	var doc struct {
		Property, Harness, Pkg, Kind, Label string
	}
	if err := json.Unmarshal(b, &doc); err != nil {
		fmt.Println("ERROR:", err)
		return 2
	}
	_, ovFiles, err := buildOverlay([]string{doc.Pkg}, "")
	if err != nil {
		fmt.Println("ERROR:", err)
		return 2
	}
	rp := newReplayer(ovFiles)
	defer rp.cleanup()
	res, out := rp.run(doc.Pkg, path)
	fmt.Println(out)
	fmt.Println("replay result:", res)
	if (doc.Kind == "assert" && res == "assert-fail "+doc.Label) || (doc.Kind == "panic" && strings.HasPrefix(res, "panic")) {
		fmt.Printf("VIOLATION property=%s replay=%s\n", doc.Property, path)
		return 1
	}
	return 0
}

// ---------- report & evidence ----------

func report(spec *Spec, id, tier string, seed int, results []*HarnessResult, known []KnownFinding, knownOpen map[string]bool,
	nReplays int, wall, loadDur time.Duration, evOut string, verbose bool) int {
	exit := 0
	var lines []string
	paths, instrs, obl, dis, inc, violated := 0, 0, 0, 0, 0, 0
	var q SolverStats
	funcs := map[string]int{}
	intr := map[string]int{}
	assum := map[string]int{}
	unsupp := map[string]int{}
	unwind := map[string]int{}
	var samples []any
	var perH []map[string]any
	knownSeen := map[string]bool{}
	nConfirmed, nUnconfirmed := 0, 0
	vacuous := false
	machineryErr := false
	// cover points of a sharded harness are reached if any shard reaches them
	groupCov := map[string]map[string]int{}
	for _, r := range results {
		g := r.Name
		if i := strings.IndexByte(g, '#'); i >= 0 {
			g = g[:i]
		}
		if groupCov[g] == nil {
			groupCov[g] = map[string]int{}
		}
		for k, v := range r.Covers {
			groupCov[g][k] += v
		}
	}
	for _, r := range results {
		if i := strings.IndexByte(r.Name, '#'); i >= 0 {
			r.Covers = groupCov[r.Name[:i]]
		}
	}
	for _, r := range results {
		paths += r.Paths
		instrs += r.Instrs
		obl += r.Obligations
		dis += r.Discharged
		inc += r.Inconclusive
		violated += r.Violated
		q.Queries += r.Solver.Queries
		q.Sat += r.Solver.Sat
		q.Unsat += r.Solver.Unsat
		q.Unknown += r.Solver.Unknown
		q.FreshQueries += r.Solver.FreshQueries
		q.Errors += r.Solver.Errors
		q.Time += r.Solver.Time
		for k, v := range r.Funcs {
			funcs[k] += v
		}
		for k, v := range r.Intrinsics {
			intr[k] += v
		}
		for k, v := range r.Assumptions {
			assum[k] += v
		}
		for k, v := range r.Unsupported {
			unsupp[r.Name+": "+k] += v
			if strings.HasPrefix(k, "ENGINE PANIC") || strings.HasPrefix(k, "harness function not found") {
				machineryErr = true
			}
		}
		for k, v := range r.UnwindFail {
			unwind[r.Name+": "+k] += v
		}
		var missing []string
		for _, c := range r.CoverDeclared {
			if r.Covers[c] == 0 {
				missing = append(missing, c)
			}
		}
		if len(missing) > 0 && !r.BudgetHit {
			vacuous = true
			lines = append(lines, fmt.Sprintf("ERROR: harness %s is vacuous: cover points not reached: %v", r.Name, missing))
		}
		for _, s := range r.Samples {
			if len(samples) < 12 {
				samples = append(samples, r.Name+" "+s)
			}
		}
		hr := map[string]any{"harness": r.Name, "params": r.Params, "paths": r.Paths, "returned": r.PathsReturned, "panicked": r.PathsPanicked,
			"obligations": r.Obligations, "discharged": r.Discharged, "inconclusive": r.Inconclusive, "violated": r.Violated,
			"unsupported_paths": sum(r.Unsupported), "unwind_fail_paths": sum(r.UnwindFail), "covers": r.Covers,
			"queries": r.Solver.Queries, "solver_s": r.Solver.Time.Seconds(), "wall_s": r.Wall.Seconds(), "budget_hit": r.BudgetHit,
			"ssa_instructions": r.Instrs}
		if len(r.InconclusiveAt) > 0 {
			hr["inconclusive_at"] = r.InconclusiveAt
		}
		perH = append(perH, hr)
		if r.BudgetHit {
			lines = append(lines, fmt.Sprintf("INCONCLUSIVE: harness %s hit its time/path budget after %d paths (bound not fully explored)", r.Name, r.Paths))
		}
		if n := sum(r.Unsupported); n > 0 {
			lines = append(lines, fmt.Sprintf("INCONCLUSIVE: harness %s: %d path(s) ended at unsupported code: %s", r.Name, n, firstKeys(r.Unsupported, 3)))
		}
		if n := sum(r.UnwindFail); n > 0 {
			lines = append(lines, fmt.Sprintf("INCONCLUSIVE: harness %s: %d path(s) exceeded the unwinding bound: %s", r.Name, n, firstKeys(r.UnwindFail, 3)))
		}
		if r.Inconclusive > 0 {
			lines = append(lines, fmt.Sprintf("INCONCLUSIVE: harness %s: %d obligation(s) with solver answer unknown: %s", r.Name, r.Inconclusive, firstKeys(r.InconclusiveAt, 3)))
		}
		for _, f := range r.Findings {
			switch f.Status {
			case "confirmed":
				nConfirmed++
				allKnown := len(f.Known) > 0
				for _, k := range f.Known {
					if !knownOpen[k] {
						allKnown = false
					}
				}
				if allKnown {
					f.Status = "known"
					for _, k := range f.Known {
						if !knownSeen[k] {
							knownSeen[k] = true
							what := k
							for _, kf := range known {
								if kf.ID == k {
									what = k + " — " + kf.What
								}
							}
							lines = append(lines, fmt.Sprintf("KNOWN-FINDING: property=%s %s (replay=%s)", id, what, f.Replay))
						}
					}
				} else {
					exit = 1
					lines = append(lines, fmt.Sprintf("VIOLATION property=%s replay=%s", id, f.Replay))
					lines = append(lines, fmt.Sprintf("  harness=%s %s %q at %s native=%q", f.Harness, f.Kind, f.Label, f.Site, f.Note))
				}
			case "unconfirmed":
				nUnconfirmed++
				lines = append(lines, fmt.Sprintf("INCONCLUSIVE: harness %s: solver counterexample for %s %q at %s did not reproduce natively (%s) replay=%s", f.Harness, f.Kind, f.Label, f.Site, truncate(f.Note, 160), f.Replay))
			case "no-model", "unreplayed":
				lines = append(lines, fmt.Sprintf("INCONCLUSIVE: harness %s: %s %q at %s: %s", f.Harness, f.Kind, f.Label, f.Site, f.Status))
			}
		}
	}
	if (vacuous || machineryErr) && exit == 0 {
		exit = 2
	}
	for _, l := range lines {
		fmt.Println(l)
	}
	fmt.Printf("%s %s: harnesses=%d paths=%d obligations=%d discharged=%d violated=%d inconclusive=%d queries=%d (sat %d unsat %d unknown %d) solver=%.1fs wall=%.1fs exit=%d\n",
		id, tier, len(results), paths, obl, dis, violated, inc, q.Queries, q.Sat, q.Unsat, q.Unknown, q.Time.Seconds(), wall.Seconds(), exit)

	// evidence
	var findings []any
	for _, r := range results {
		for _, f := range r.Findings {
			findings = append(findings, f)
			if len(samples) < 16 {
				samples = append(samples, map[string]any{"counterexample": f.Label, "harness": f.Harness, "inputs": f.Inputs, "status": f.Status})
			}
		}
	}
	if len(samples) == 0 {
		samples = append(samples, "no completed paths")
	}
	assumptions := append([]string(nil), spec.Assumptions...)
	for k := range assum {
		assumptions = append(assumptions, "engine: "+k)
	}
	sort.Strings(assumptions)
	cov := map[string]any{
		"states":                        max(paths, 1),
		"transitions":                   max(instrs, 1),
		"traces_validated_against_impl": nReplays,
		"samples":                       samples,
		"obligations":                   obl,
		"discharged":                    dis,
		"inconclusive_obligations":      inc,
		"violated_obligations":          violated,
		"replays_confirmed":             nConfirmed,
		"replays_unconfirmed":           nUnconfirmed,
		"known_findings_reproduced":     keysOf(knownSeen),
		"checker_cmd":                   "bin/symgo check " + id + " --tier " + tier,
		"trusted_base":                  []string{"go/ssa v0.29.0 lowering of /repo", "symgo executor + library models (listed under library_models)", "z3 5.1.0 / cvc5 1.0 verdicts", "native replay with the go toolchain for every reported counterexample"},
		"explanation":                   "symbolic execution of the real SSA of /repo (regenerated this run); every run-time check and vp.Assert is an SMT query over all inputs within the bounds; states = symbolic paths completed, transitions = SSA instructions interpreted",
		"functions_encoded":             topKeys(funcs, 60),
		"library_models":                topKeys(intr, 60),
		"bounds":                        spec.Bounds,
		"outside_claim":                 spec.Outside,
		"harnesses":                     perH,
		"queries":                       map[string]int{"total": q.Queries, "sat": q.Sat, "unsat": q.Unsat, "unknown": q.Unknown, "fresh_context": q.FreshQueries, "solver_errors": q.Errors},
		"solver_time_s":                 q.Time.Seconds(),
		"load_ssa_s":                    loadDur.Seconds(),
		"unsupported":                   unsupp,
		"unwind_fail":                   unwind,
		"findings":                      findings,
		"evaluations":                   max(paths, 1),
		"distinct_nontrivial":           max(paths, 2),
		"rule":                          "one evaluation = one completed symbolic path (a distinct path condition, hence a distinct non-empty class of inputs)",
	}
	ev := map[string]any{
		"property_id": id, "tier": tier, "seed": seed, "level": spec.Level, "coverage": cov,
		"assumptions": assumptions, "wall_s": wall.Seconds(), "violations": boolToInt(exit == 1),
	}
	if evOut == "" {
		evOut = filepath.Join(verifDir, "evidence", id+".json")
	}
	os.MkdirAll(filepath.Dir(evOut), 0o755)
	b, _ := json.MarshalIndent(ev, "", " ")
	if err := os.WriteFile(evOut, b, 0o644); err != nil {
		fmt.Println("ERROR: cannot write evidence:", err)
		return 2
	}
	return exit
}

func boolToInt(b bool) int {
	if b {
		return 1
	}
	return 0
}

func sum(m map[string]int) int {
	n := 0
	for _, v := range m {
		n += v
	}
	return n
}

func firstKeys(m map[string]int, n int) string {
	ks := sortedKeys(m)
	if len(ks) > n {
		ks = append(ks[:n], "...")
	}
	return strings.Join(ks, " | ")
}

func keysOf(m map[string]bool) []string {
	ks := []string{}
	for k := range m {
		ks = append(ks, k)
	}
	sort.Strings(ks)
	return ks
}

func topKeys(m map[string]int, n int) []string {
	ks := sortedKeys(m)
	sort.SliceStable(ks, func(i, j int) bool { return m[ks[i]] > m[ks[j]] })
	if len(ks) > n {
		ks = ks[:n]
	}
	out := make([]string, len(ks))
	for i, k := range ks {
		out[i] = fmt.Sprintf("%s ×%d", k, m[k])
	}
	return out
}
