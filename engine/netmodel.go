package main

// Models for package net / net/textproto functions (UF + refinement, table 3).

import (
	"crypto/tls"
	"crypto/x509"
	"go/types"
	"fmt"
	"math"
	"math/big"
	"net"
	"net/textproto"
	"net/url"

	"github.com/gobwas/glob"
	"strconv"
	"strings"

	"golang.org/x/tools/go/ssa"
)

func ipToBig(ip net.IP) *big.Int { return new(big.Int).SetBytes(ip) }

func init() {
	defUF("splithostport", []Sort{SStr}, []Sort{SBool, SStr, SStr}, func(a []any) []any {
		h, p, err := net.SplitHostPort(a[0].(string))
		return []any{err == nil, h, p}
	})
	ints := func(n int) []Sort {
		r := make([]Sort, n)
		for i := range r {
			r[i] = SInt
		}
		return r
	}
	bytesAny := func(b []byte, n int) []any {
		out := make([]any, n)
		for i := range out {
			if i < len(b) {
				out[i] = big.NewInt(int64(b[i]))
			} else {
				out[i] = big.NewInt(0)
			}
		}
		return out
	}
	// valid, 16 bytes
	defUF("parseip", []Sort{SStr}, append([]Sort{SBool}, ints(16)...), func(a []any) []any {
		ip := net.ParseIP(a[0].(string))
		if ip == nil {
			return append([]any{false}, bytesAny(nil, 16)...)
		}
		return append([]any{true}, bytesAny(ip.To16(), 16)...)
	})
	// ok, is4, ip[16], net[16], mask[16] (net/mask use the first 4 entries for IPv4 networks)
	defUF("parsecidr", []Sort{SStr}, append([]Sort{SBool, SBool}, ints(48)...), func(a []any) []any {
		ip, n, err := net.ParseCIDR(a[0].(string))
		if err != nil {
			return append([]any{false, false}, bytesAny(nil, 48)...)
		}
		r := []any{true, len(n.IP) == 4}
		r = append(r, bytesAny(ip.To16(), 16)...)
		r = append(r, bytesAny(n.IP, 16)...)
		r = append(r, bytesAny(n.Mask, 16)...)
		return r
	})
	defUF("ipstring", append([]Sort{SInt}, ints(16)...), []Sort{SStr}, func(a []any) []any {
		n := int(a[0].(*big.Int).Int64())
		if n < 0 || n > 16 {
			return []any{""}
		}
		b := make([]byte, n)
		for i := range b {
			b[i] = byte(a[1+i].(*big.Int).Int64())
		}
		return []any{net.IP(b).String()}
	})
	defUF("canonkey", []Sort{SStr}, []Sort{SStr}, func(a []any) []any {
		return []any{textproto.CanonicalMIMEHeaderKey(a[0].(string))}
	})
	defUF("joinhostport", []Sort{SStr, SStr}, []Sort{SStr}, func(a []any) []any {
		return []any{net.JoinHostPort(a[0].(string), a[1].(string))}
	})
	defUF("atoi", []Sort{SStr}, []Sort{SBool, SInt}, func(a []any) []any {
		n, err := strconv.Atoi(a[0].(string))
		return []any{err == nil, big.NewInt(int64(n))}
	})

	reg("net.SplitHostPort", func(e *Engine, st *State, c *callCtx) bool {
		s := c.str(e, st, 0)
		// structural case: host ++ ":" ++ port where neither side can contain ':', '[' or ']'
		if !s.K && s.parts != nil {
			colon := -1
			ok := true
			for i, p := range s.parts {
				if p.K {
					switch {
					case p.Str == ":" && colon < 0:
						colon = i
					case strings.ContainsAny(p.Str, ":[]"):
						ok = false
					}
					continue
				}
				if e.ask(Or(StrContains(p, KStr(":")), StrContains(p, KStr("[")), StrContains(p, KStr("]")))) != "unsat" {
					ok = false
				}
			}
			if ok && colon >= 0 {
				e.res.Intrinsics["<exact> net.SplitHostPort (structural host:port)"]++
				c.ret(st, TupleVal{e.name(Concat(s.parts[:colon]...)), e.name(Concat(s.parts[colon+1:]...)), IfaceVal{}})
				return true
			}
		}
		r := e.ufCall(st, "splithostport", s)
		ok, host, port := r[0], r[1], r[2]
		if !s.K {
			// documented facts: host:port or [host]:port, port without colon; no colon => error
			e.sol.Assert(Implies(ok, Or(Eq(s, Concat(host, KStr(":"), port)), Eq(s, Concat(KStr("["), host, KStr("]:"), port)))))
			e.sol.Assert(Implies(ok, Not(StrContains(port, KStr(":")))))
			e.sol.Assert(Implies(Not(StrContains(s, KStr(":"))), Not(ok)))
			e.sol.Assert(Implies(Not(ok), And(Eq(host, KStr("")), Eq(port, KStr("")))))
			// exact for addresses without brackets: exactly one colon
			nobr := And(Not(StrContains(s, KStr("["))), Not(StrContains(s, KStr("]"))))
			i := e.name(StrIndexOf(s, KStr(":"), KInt64(0)))
			second := StrIndexOf(s, KStr(":"), Add(i, KInt64(1)))
			one := And(Ge(i, KInt64(0)), Lt(second, KInt64(0)))
			e.sol.Assert(Implies(And(nobr, one), And(ok, Eq(host, Substr(s, KInt64(0), i)), Eq(port, Substr(s, Add(i, KInt64(1)), Sub(StrLen(s), Add(i, KInt64(1))))))))
			e.sol.Assert(Implies(And(nobr, Not(one)), Not(ok)))
			e.sol.Assert(Implies(And(ok, Not(nobr)), And(StrPrefixOf(KStr("["), s), Eq(s, Concat(KStr("["), host, KStr("]:"), port)), Not(StrContains(host, KStr("]"))), Not(StrContains(host, KStr("["))))))
		}
		return e.branch(st, []Alt{
			{Cond: ok, Tag: "SplitHostPort=ok", Do: func(s2 *State) { c.ret(s2, TupleVal{host, port, IfaceVal{}}) }},
			{Cond: Not(ok), Tag: "SplitHostPort=err", Do: func(s2 *State) {
				c.ret(s2, TupleVal{KStr(""), KStr(""), e.newError(s2, KStr("address: missing port in address"))})
			}},
		})
	})
	reg("net.JoinHostPort", func(e *Engine, st *State, c *callCtx) bool {
		h, p := c.str(e, st, 0), c.str(e, st, 1)
		r := e.ufCall(st, "joinhostport", h, p)
		if !(h.K && p.K) {
			e.sol.Assert(Or(Eq(r[0], Concat(h, KStr(":"), p)), Eq(r[0], Concat(KStr("["), h, KStr("]:"), p))))
			e.sol.Assert(Implies(And(Not(StrContains(h, KStr(":"))), Not(StrContains(h, KStr("%")))), Eq(r[0], Concat(h, KStr(":"), p))))
		}
		c.ret(st, r[0])
		return true
	})
	byteFacts := func(e *Engine, ts []*Term) {
		for _, t := range ts {
			if !t.K {
				e.sol.Assert(And(Le(KInt64(0), t), Le(t, KInt64(255))))
				t.Lo, t.Hi = big0, big255
			}
		}
	}
	nilSlice := SliceVal{Off: KInt64(0), Len: KInt64(0), Cap: KInt64(0)}
	reg("net.ParseIP", func(e *Engine, st *State, c *callCtx) bool {
		s := c.str(e, st, 0)
		r := e.ufCall(st, "parseip", s)
		valid, bs := r[0], r[1:17]
		if !s.K {
			byteFacts(e, bs)
			e.sol.Assert(Implies(Eq(s, KStr("")), Not(valid)))
			// dotted quad: sufficient (for every a,b,c,d) and, for colon-free text, necessary (Skolem a..d)
			q, dq := e.dottedQuad(s)
			var v4 []*Term
			for i := 0; i < 10; i++ {
				v4 = append(v4, Eq(bs[i], KInt64(0)))
			}
			v4 = append(v4, Eq(bs[10], KInt64(255)), Eq(bs[11], KInt64(255)), Eq(bs[12], q[0]), Eq(bs[13], q[1]), Eq(bs[14], q[2]), Eq(bs[15], q[3]))
			e.sol.Assert(Implies(dq, And(append([]*Term{valid}, v4...)...)))
			e.sol.Assert(Implies(valid, Or(dq, StrContains(s, KStr(":")))))
			e.sol.Assert(Implies(StrContains(s, KStr("%")), Not(valid)))
		}
		return e.branch(st, []Alt{
			{Cond: valid, Tag: "ParseIP=ok", Do: func(s2 *State) { c.ret(s2, e.byteSlice(s2, bs)) }},
			{Cond: Not(valid), Tag: "ParseIP=nil", Do: func(s2 *State) { c.ret(s2, nilSlice) }},
		})
	})
	reg("net.ParseCIDR", func(e *Engine, st *State, c *callCtx) bool {
		s := c.str(e, st, 0)
		ipnetT := c.fn.Signature.Results().At(1).Type().(*types.Pointer).Elem()
		mkNet := func(s2 *State, ip, netb, mask []*Term) Value {
			ipn := StructVal{F: []Value{e.byteSlice(s2, netb), e.byteSlice(s2, mask)}}
			id := s2.newObj(ipn, ipnetT)
			return TupleVal{e.byteSlice(s2, ip), PtrVal{Obj: id}, IfaceVal{}}
		}
		fail := func(s2 *State) Value {
			return TupleVal{nilSlice, nilPtr, e.newError(s2, KStr("invalid CIDR address"))}
		}
		ff := func(n int) []*Term {
			r := make([]*Term, n)
			for i := range r {
				r[i] = KInt64(255)
			}
			return r
		}
		// ParseCIDR(ip.String() + "/32" | "/128") with ip from ParseIP: succeeds with that very address
		if o, ok := e.ipStrOrigin[s.S]; ok && (o.suffix == "/32" || o.suffix == "/128") && len(o.b) == 16 {
			e.res.Intrinsics["<fact> ParseCIDR(ip.String()+\"/32|/128\") = ip"]++
			var pre []*Term
			for i := 0; i < 10; i++ {
				pre = append(pre, Eq(o.b[i], KInt64(0)))
			}
			pre = append(pre, Eq(o.b[10], KInt64(255)), Eq(o.b[11], KInt64(255)))
			isV4 := And(pre...)
			if o.suffix == "/32" {
				return e.branch(st, []Alt{
					{Cond: isV4, Do: func(s2 *State) { c.ret(s2, mkNet(s2, o.b, o.b[12:16], ff(4))) }},
					{Cond: Not(isV4), Do: func(s2 *State) {
						nb := append(append([]*Term{}, o.b[:4]...), make([]*Term, 12)...)
						mk := append(ff(4), make([]*Term, 12)...)
						for i := 4; i < 16; i++ {
							nb[i], mk[i] = KInt64(0), KInt64(0)
						}
						c.ret(s2, mkNet(s2, o.b, nb, mk))
					}},
				})
			}
			return e.branch(st, []Alt{
				{Cond: Not(isV4), Do: func(s2 *State) { c.ret(s2, mkNet(s2, o.b, o.b, ff(16))) }},
				{Cond: isV4, Do: func(s2 *State) { c.ret(s2, fail(s2)) }}, // dotted quad with /128 is rejected
			})
		}
		r := e.ufCall(st, "parsecidr", s)
		ok, is4 := r[0], r[1]
		ip, netb, mask := r[2:18], r[18:34], r[34:50]
		if !s.K {
			byteFacts(e, r[2:50])
			e.sol.Assert(Implies(Not(StrContains(s, KStr("/"))), Not(ok)))
			// "a.b.c.d/n": sufficient for canonical numerals, necessary shape for IPv4 results
			addr, bits := e.freshVar("cidraddr", SStr), e.freshVar("cidrbits", SStr)
			q, dq := e.dottedQuad(addr)
			n := e.fresh("cidrn")
			e.sol.Declare(n, SInt)
			nt := IntVarR(n, big0, big.NewInt(32))
			e.sol.Assert(And(Le(KInt64(0), stripFacts(nt)), Le(stripFacts(nt), KInt64(32))))
			shape := And(Eq(s, Concat(addr, KStr("/"), bits)), dq, Not(Eq(bits, KStr(""))))
			canon := And(shape, Eq(bits, &Term{S: "(str.from_int " + nt.S + ")", Sort: SStr}))
			var cs []*Term
			cs = append(cs, ok, is4)
			for i := 0; i < 10; i++ {
				cs = append(cs, Eq(ip[i], KInt64(0)))
			}
			cs = append(cs, Eq(ip[10], KInt64(255)), Eq(ip[11], KInt64(255)))
			for i := 0; i < 4; i++ {
				cs = append(cs, Eq(ip[12+i], q[i]))
				// k = number of mask bits in byte i
				k := Sub(nt, KInt64(int64(8*i)))
				var mb, nb *Term = KInt64(255), q[i]
				for kk := 7; kk >= 0; kk-- {
					mv := KInt64(int64(256 - (1 << (8 - kk))))
					nv := Sub(q[i], ModK(q[i], big.NewInt(int64(1<<(8-kk)))))
					mb = Ite(Le(k, KInt64(int64(kk))), mv, mb)
					nb = Ite(Le(k, KInt64(int64(kk))), nv, nb)
				}
				cs = append(cs, Eq(mask[i], e.name(mb)), Eq(netb[i], e.name(nb)))
			}
			e.sol.Assert(Implies(canon, And(cs...)))
			e.sol.Assert(Implies(And(ok, is4), shape))
			e.sol.Assert(Implies(StrContains(s, KStr("%")), Not(ok)))
		}
		return e.branch(st, []Alt{
			{Cond: And(ok, is4), Tag: "ParseCIDR=v4", Do: func(s2 *State) { c.ret(s2, mkNet(s2, ip, netb[:4], mask[:4])) }},
			{Cond: And(ok, Not(is4)), Tag: "ParseCIDR=v6", Do: func(s2 *State) { c.ret(s2, mkNet(s2, ip, netb, mask)) }},
			{Cond: Not(ok), Tag: "ParseCIDR=err", Do: func(s2 *State) { c.ret(s2, fail(s2)) }},
		})
	})
	reg("(net.IP).String", func(e *Engine, st *State, c *callCtx) bool {
		sl := c.args[0].(SliceVal)
		if sl.Obj == 0 {
			c.ret(st, KStr("<nil>"))
			return true
		}
		if !sl.Len.K || !sl.Off.K || sl.Len.I.Int64() > 16 {
			c.ret(st, e.freshVar("ipstr", SStr))
			return true
		}
		n := int(sl.Len.I.Int64())
		arr := e.backing(st, sl.Obj).(SymArrVal)
		args := []*Term{KInt64(int64(n))}
		var bs []*Term
		for i := 0; i < 16; i++ {
			if i < n {
				b := e.selectArr(arr, Add(sl.Off, KInt64(int64(i)))).(*Term)
				args = append(args, b)
				bs = append(bs, b)
			} else {
				args = append(args, KInt64(0))
			}
		}
		r := e.ufCall(st, "ipstring", args...)
		if !r[0].K {
			e.ipStrOrigin[r[0].S] = ipOrigin{b: bs}
		}
		c.ret(st, r[0])
		return true
	})
	reg("(*net.IPNet).String", func(e *Engine, st *State, c *callCtx) bool {
		e.res.Assumptions["(*net.IPNet).String: arbitrary string (result only logged)"]++
		c.ret(st, e.freshVar("ipnetstr", SStr))
		return true
	})
	canon := func(e *Engine, st *State, c *callCtx) bool {
		s := c.str(e, st, 0)
		r := e.ufCall(st, "canonkey", s)
		if !s.K {
			e.sol.Assert(Eq(StrLen(r[0]), StrLen(s)))
		}
		c.ret(st, r[0])
		return true
	}
	reg("net/textproto.CanonicalMIMEHeaderKey", canon)
	reg("net/http.CanonicalHeaderKey", canon)
	reg("strconv.Atoi", func(e *Engine, st *State, c *callCtx) bool {
		s := c.str(e, st, 0)
		r := e.ufCall(st, "atoi", s)
		ok, v := r[0], r[1]
		if !s.K {
			ii := intInfos[types.Int]
			e.sol.Assert(And(Le(KInt(ii.lo), v), Le(v, KInt(ii.hi))))
			e.sol.Assert(Implies(Not(ok), Or(Eq(v, KInt64(0)), Eq(v, KInt(ii.lo)), Eq(v, KInt(ii.hi)))))
		}
		vv := *v
		if !v.K {
			ii := intInfos[types.Int]
			vv.Lo, vv.Hi = ii.lo, ii.hi
		}
		return e.branch(st, []Alt{
			{Cond: ok, Tag: "Atoi=ok", Do: func(s2 *State) { c.ret(s2, TupleVal{&vv, IfaceVal{}}) }},
			{Cond: Not(ok), Tag: "Atoi=err", Do: func(s2 *State) { c.ret(s2, TupleVal{&vv, e.newError(s2, KStr("strconv.Atoi: parsing"))}) }},
		})
	})
}

// dottedQuad introduces a,b,c,d in 0..255 and the predicate s = "a.b.c.d" (canonical decimals)
func (e *Engine) dottedQuad(s *Term) ([4]*Term, *Term) {
	var q [4]*Term
	var parts []*Term
	for i := range q {
		n := e.fresh("quad")
		e.sol.Declare(n, SInt)
		q[i] = IntVarR(n, big0, big255)
		e.sol.Assert(And(Le(KInt64(0), stripFacts(q[i])), Le(stripFacts(q[i]), KInt64(255))))
		if i > 0 {
			parts = append(parts, KStr("."))
		}
		parts = append(parts, &Term{S: "(str.from_int " + n + ")", Sort: SStr})
	}
	return q, Eq(s, Concat(parts...))
}

type ipOrigin struct {
	b      []*Term
	suffix string
}

// byteSlice builds a []byte (net.IP / net.IPMask) from byte terms
func (e *Engine) byteSlice(st *State, bs []*Term) Value {
	ln := KInt64(int64(len(bs)))
	id := st.newObj(SymArrVal{N: ln, Elem: types.Typ[types.Uint8], C: append([]*Term(nil), bs...)}, nil)
	return SliceVal{Obj: id, Off: KInt64(0), Len: ln, Cap: ln}
}

var _ = strings.Contains
var _ ssa.Instruction

func init() {
	// (*url.URL).String over the string fields (User must be nil)
	defUF("urlstring", []Sort{SStr, SStr, SStr, SStr, SStr, SBool, SStr, SStr, SStr}, []Sort{SStr}, func(a []any) []any {
		u := url.URL{Scheme: a[0].(string), Opaque: a[1].(string), Host: a[2].(string), Path: a[3].(string), RawPath: a[4].(string),
			ForceQuery: a[5].(bool), RawQuery: a[6].(string), Fragment: a[7].(string), RawFragment: a[8].(string)}
		return []any{u.String()}
	})
	reg("(*net/url.URL).String", func(e *Engine, st *State, c *callCtx) bool {
		p, ok := c.args[0].(PtrVal)
		if !ok || p.Obj == 0 {
			e.doPanic(st, OpaqueVal{"nil pointer dereference"}, "nil-deref @ (*url.URL).String", "nil")
			return true
		}
		u, ok := e.load(st, p).(StructVal)
		if !ok {
			unsup("url.URL.String on %s", describe(e.load(st, p)))
		}
		// field order of url.URL: Scheme Opaque User Host Path RawPath OmitHost ForceQuery RawQuery Fragment RawFragment
		ut := c.fn.Signature.Recv().Type().(*types.Pointer).Elem().Underlying().(*types.Struct)
		get := func(name string) Value {
			for i := 0; i < ut.NumFields(); i++ {
				if ut.Field(i).Name() == name {
					return u.F[i]
				}
			}
			unsup("url.URL has no field %s", name)
			return nil
		}
		if up, ok := get("User").(PtrVal); !ok || up.Obj != 0 {
			unsup("url.URL.String with userinfo")
		}
		str := func(n string) *Term { return e.toSMTString(st, get(n)) }
		fq := get("ForceQuery").(*Term)
		r := e.ufCall(st, "urlstring", str("Scheme"), str("Opaque"), str("Host"), str("Path"), str("RawPath"), fq, str("RawQuery"), str("Fragment"), str("RawFragment"))
		c.ret(st, r[0])
		return true
	})
}

// ---------- url.Parse, gobwas/glob ----------

func init() {
	defUF("urlparse", []Sort{SStr}, []Sort{SBool, SBool, SStr, SStr, SStr, SStr, SStr, SBool, SStr, SStr, SStr}, func(a []any) []any {
		u, err := url.Parse(a[0].(string))
		if err != nil {
			return []any{false, false, "", "", "", "", "", false, "", "", ""}
		}
		return []any{true, u.User != nil, u.Scheme, u.Opaque, u.Host, u.Path, u.RawPath, u.ForceQuery, u.RawQuery, u.Fragment, u.RawFragment}
	})
	reg("net/url.Parse", func(e *Engine, st *State, c *callCtx) bool {
		s := c.str(e, st, 0)
		r := e.ufCall(st, "urlparse", s)
		ok, hasUser := r[0], r[1]
		ut := c.fn.Signature.Results().At(0).Type().(*types.Pointer).Elem()
		us := ut.Underlying().(*types.Struct)
		if !s.K {
			e.sol.Assert(Implies(Eq(s, KStr("")), ok))
			// userinfo needs an '@' in the text
			e.sol.Assert(Implies(hasUser, StrContains(s, KStr("@"))))
			// urlstring(parse(s)) is a fixpoint of parsing (round trip facts are left to refinement)
		}
		mk := func(s2 *State) Value {
			f := make([]Value, us.NumFields())
			for i := range f {
				f[i] = zeroValue(us.Field(i).Type())
			}
			set := func(name string, v Value) {
				for i := 0; i < us.NumFields(); i++ {
					if us.Field(i).Name() == name {
						f[i] = v
					}
				}
			}
			set("Scheme", r[2])
			set("Opaque", r[3])
			set("Host", r[4])
			set("Path", r[5])
			set("RawPath", r[6])
			set("ForceQuery", r[7])
			set("RawQuery", r[8])
			set("Fragment", r[9])
			set("RawFragment", r[10])
			id := s2.newObj(StructVal{F: f}, ut)
			return PtrVal{Obj: id}
		}
		return e.branch(st, []Alt{
			{Cond: And(ok, Not(hasUser)), Tag: "url.Parse=ok", Do: func(s2 *State) { c.ret(s2, TupleVal{mk(s2), IfaceVal{}}) }},
			{Cond: And(ok, hasUser), Tag: "url.Parse=userinfo", Do: func(s2 *State) { unsup("url.Parse result with userinfo") }},
			{Cond: Not(ok), Tag: "url.Parse=err", Do: func(s2 *State) { c.ret(s2, TupleVal{nilPtr, e.newError(s2, KStr("parse error"))}) }},
		})
	})
	defUF("globcompile", []Sort{SStr}, []Sort{SBool}, func(a []any) []any {
		_, err := glob.Compile(a[0].(string))
		return []any{err == nil}
	})
	defUF("globmatch", []Sort{SStr, SStr}, []Sort{SBool}, func(a []any) []any {
		g, err := glob.Compile(a[0].(string))
		if err != nil {
			return []any{false}
		}
		return []any{g.Match(a[1].(string))}
	})
	compile := func(e *Engine, st *State, c *callCtx) bool {
		p := c.str(e, st, 0)
		ok := e.ufCall(st, "globcompile", p)[0]
		if !p.K {
			// a pattern without meta characters always compiles
			meta := Or(StrContains(p, KStr("*")), StrContains(p, KStr("?")), StrContains(p, KStr("[")), StrContains(p, KStr("{")), StrContains(p, KStr("\\")), StrContains(p, KStr("]")), StrContains(p, KStr("}")), StrContains(p, KStr("!")), StrContains(p, KStr(",")))
			e.sol.Assert(Implies(Not(meta), ok))
		}
		g := IfaceVal{T: globMarker, V: GlobVal{Pat: p}}
		if c.fn.Signature.Results().Len() == 1 { // MustCompile
			return e.branch(st, []Alt{
				{Cond: ok, Do: func(s2 *State) { c.ret(s2, g) }},
				{Cond: Not(ok), Tag: "glob.MustCompile=panic", Do: func(s2 *State) { e.doPanic(s2, OpaqueVal{"glob: bad pattern"}, "panic glob.MustCompile", "explicit") }},
			})
		}
		return e.branch(st, []Alt{
			{Cond: ok, Tag: "glob.Compile=ok", Do: func(s2 *State) { c.ret(s2, TupleVal{g, IfaceVal{}}) }},
			{Cond: Not(ok), Tag: "glob.Compile=err", Do: func(s2 *State) { c.ret(s2, TupleVal{IfaceVal{}, e.newError(s2, KStr("glob: bad pattern"))}) }},
		})
	}
	reg("github.com/gobwas/glob.Compile", compile)
	reg("github.com/gobwas/glob.MustCompile", compile)
}

// GlobVal is a compiled gobwas glob (pattern kept symbolically)
type GlobVal struct{ Pat *Term }

var globMarker types.Type = types.NewNamed(types.NewTypeName(0, nil, "vpGlob", nil), types.NewStruct(nil, nil), nil)

// globMatch: Match on a GlobVal. Exact for literal patterns and "*"+literal / literal+"*" shapes.
func (e *Engine) globMatch(st *State, g GlobVal, s *Term) *Term {
	p := g.Pat
	// character vectors: patterns made of literals, '*' and '?' are matched position by position
	if p.K && !s.K && !strings.ContainsAny(p.Str, "[{\\") {
		if cv, ok := charVec(s); ok {
			e.res.Intrinsics["glob.Match [structural]"]++
			return e.cvGlob(p.Str, cv)
		}
	}
	r := e.ufCall(st, "globmatch", p, s)[0]
	if !(p.K && s.K) {
		meta := Or(StrContains(p, KStr("*")), StrContains(p, KStr("?")), StrContains(p, KStr("[")), StrContains(p, KStr("{")), StrContains(p, KStr("\\")))
		e.sol.Assert(Implies(Not(meta), Eq(r, Eq(p, s))))
		// "*" + literal suffix
		suf := Substr(p, KInt64(1), Sub(StrLen(p), KInt64(1)))
		metaSuf := Or(StrContains(suf, KStr("*")), StrContains(suf, KStr("?")), StrContains(suf, KStr("[")), StrContains(suf, KStr("{")), StrContains(suf, KStr("\\")))
		e.sol.Assert(Implies(And(StrPrefixOf(KStr("*"), p), Not(metaSuf)), Eq(r, StrSuffixOf(suf, s))))
	}
	return r
}

// ---------- strconv.ParseFloat / Quote, strings.Fields, fmt.Sprintf ----------

func init() {
	// ok, kind (0 finite 1 +Inf 2 -Inf 3 NaN), numerator, denominator of the exact float64 value
	defUF("parsefloat", []Sort{SStr}, []Sort{SBool, SInt, SInt, SInt}, func(a []any) []any {
		f, err := strconv.ParseFloat(a[0].(string), 64)
		if err != nil {
			return []any{false, big.NewInt(0), big.NewInt(0), big.NewInt(1)}
		}
		switch {
		case math.IsNaN(f):
			return []any{true, big.NewInt(3), big.NewInt(0), big.NewInt(1)}
		case math.IsInf(f, 1):
			return []any{true, big.NewInt(1), big.NewInt(0), big.NewInt(1)}
		case math.IsInf(f, -1):
			return []any{true, big.NewInt(2), big.NewInt(0), big.NewInt(1)}
		}
		r := new(big.Rat)
		r.SetFloat64(f)
		return []any{true, big.NewInt(0), r.Num(), r.Denom()}
	})
	reg("strconv.ParseFloat", func(e *Engine, st *State, c *callCtx) bool {
		s := c.str(e, st, 0)
		r := e.ufCall(st, "parsefloat", s)
		ok, kind, num, den := r[0], r[1], r[2], r[3]
		var fv FloatVal
		if s.K {
			q := new(big.Rat)
			if den.I.Sign() != 0 {
				q.SetFrac(num.I, den.I)
			}
			fv = FloatVal{Kind: kind, V: KReal(q)}
		} else {
			e.sol.Assert(And(Le(KInt64(0), kind), Le(kind, KInt64(3)), Lt(KInt64(0), den)))
			e.sol.Assert(Implies(Eq(s, KStr("")), Not(ok)))
			e.sol.Assert(Implies(Not(ok), And(Eq(kind, KInt64(0)), Eq(num, KInt64(0)), Eq(den, KInt64(1)))))
			// documented special spellings
			e.sol.Assert(Implies(Or(Eq(s, KStr("Inf")), Eq(s, KStr("+Inf")), Eq(s, KStr("inf")), Eq(s, KStr("Infinity"))), And(ok, Eq(kind, KInt64(1)))))
			e.sol.Assert(Implies(Or(Eq(s, KStr("NaN")), Eq(s, KStr("nan"))), And(ok, Eq(kind, KInt64(3)))))
			if cv, isCV := charVec(s); isCV {
				// a character that occurs in no float literal (decimal, hex, inf, infinity, nan) is an error
				var bad []*Term
				for _, ch := range cv {
					if ch.sym == nil {
						continue
					}
					var okc []*Term
					for _, a := range "0123456789abcdefABCDEF+-._xXpPiInNtTyY" {
						okc = append(okc, Eq(ch.sym, KInt64(int64(a))))
					}
					bad = append(bad, Not(Or(okc...)))
				}
				if len(bad) > 0 {
					e.sol.Assert(Implies(Or(bad...), Not(ok)))
				}
			}
			v := e.freshVar("pf", SReal)
			e.sol.Assert(Eq(v, Ite(Eq(kind, KInt64(0)), RDiv(ToReal(num), ToReal(den)), rZero)))
			mx := KReal(maxF64)
			e.sol.Assert(And(Le(RSub(rZero, mx), v), Le(v, mx)))
			fv = FloatVal{Kind: kind, V: v}
		}
		return e.branch(st, []Alt{
			{Cond: ok, Tag: "ParseFloat=ok", Do: func(s2 *State) { c.ret(s2, TupleVal{fv, IfaceVal{}}) }},
			{Cond: Not(ok), Tag: "ParseFloat=err", Do: func(s2 *State) {
				c.ret(s2, TupleVal{fKonst(new(big.Rat)), e.newError(s2, KStr("strconv.ParseFloat: parsing"))})
			}},
		})
	})
	defUF("quote", []Sort{SStr}, []Sort{SStr}, func(a []any) []any { return []any{strconv.Quote(a[0].(string))} })
	reg("strconv.Quote", func(e *Engine, st *State, c *callCtx) bool {
		c.ret(st, e.quote(st, c.str(e, st, 0)))
		return true
	})
	reg("strings.Fields", func(e *Engine, st *State, c *callCtx) bool {
		s := c.str(e, st, 0)
		mk := func(s2 *State, parts []*Term) {
			el := make([]Value, len(parts))
			for i, p := range parts {
				el[i] = p
			}
			var sl SliceVal
			if len(el) == 0 {
				// Fields returns an empty non-nil slice
				id := s2.newObj(ArrayVal{}, nil)
				sl = SliceVal{Obj: id, Off: KInt64(0), Len: KInt64(0), Cap: KInt64(0)}
			} else {
				id := s2.newObj(ArrayVal{E: el}, nil)
				n := KInt64(int64(len(el)))
				sl = SliceVal{Obj: id, Off: KInt64(0), Len: n, Cap: n}
			}
			c.ret(s2, sl)
		}
		if s.K {
			var ts []*Term
			for _, f := range strings.Fields(s.Str) {
				ts = append(ts, KStr(f))
			}
			mk(st, ts)
			return true
		}
		K := e.cfg.Params["FIELDS"]
		if K == 0 {
			K = 3
		}
		e.res.Assumptions["strings.Fields: ASCII white space only"]++
		ws := "(re.+ (re.union (str.to_re \" \") (re.range \"\\u{9}\" \"\\u{d}\")))"
		wsOpt := "(re.* (re.union (str.to_re \" \") (re.range \"\\u{9}\" \"\\u{d}\")))"
		nonws := "(re.+ (re.union (re.range \"\\u{0}\" \"\\u{8}\") (re.range \"\\u{e}\" \"\\u{1f}\") (re.range \"\\u{21}\" \"\\u{ff}\")))"
		var alts []Alt
		for k := 0; k <= K+1; k++ {
			var cat []*Term
			var conds []*Term
			var parts []*Term
			lead := e.freshVar("ws", SStr)
			conds = append(conds, &Term{S: "(str.in_re " + lead.S + " " + wsOpt + ")", Sort: SBool})
			cat = append(cat, lead)
			for i := 0; i < k; i++ {
				f := e.freshVar("field", SStr)
				conds = append(conds, &Term{S: "(str.in_re " + f.S + " " + nonws + ")", Sort: SBool})
				parts = append(parts, f)
				cat = append(cat, f)
				sep := e.freshVar("ws", SStr)
				if i < k-1 {
					conds = append(conds, &Term{S: "(str.in_re " + sep.S + " " + ws + ")", Sort: SBool})
				} else {
					conds = append(conds, &Term{S: "(str.in_re " + sep.S + " " + wsOpt + ")", Sort: SBool})
				}
				cat = append(cat, sep)
			}
			conds = append(conds, Eq(s, Concat(cat...)))
			ps := parts
			if k == K+1 {
				alts = append(alts, Alt{Cond: And(conds[:len(conds)-1]...), Tag: "fields>bound", Do: func(s2 *State) { unsup("UNWIND strings.Fields yields more than %d fields", K) }})
				// the ">bound" shape: at least K+1 fields, rest arbitrary
				rest := e.freshVar("rest", SStr)
				alts[len(alts)-1].Cond = And(append(conds[:len(conds)-1], Eq(s, Concat(append(cat, rest)...)))...)
				continue
			}
			alts = append(alts, Alt{Cond: And(conds...), Tag: fmt.Sprintf("fields=%d", k), Do: func(s2 *State) { mk(s2, ps) }})
		}
		return e.branch(st, alts)
	})
}

// strconv.Quote: identity wrapped in quotes for printable ASCII without '"' and '\', UF otherwise
func (e *Engine) quote(st *State, s *Term) *Term {
	if !s.K {
		// character vectors: escaped position by position (callers are wrapped by forking)
		if cv, ok := charVec(s); ok {
			return cvTerm(e.cvQuote(cv))
		}
	}
	// exact for short printable-ASCII strings: per character escaping of '"' and '\\'
	if !s.K {
		ln := StrLen(s)
		printable := &Term{S: "(str.in_re " + s.S + " (re.* (re.range \" \" \"~\")))", Sort: SBool}
		if ln.Hi != nil && ln.Hi.IsInt64() && ln.Hi.Int64() <= 8 && e.ask(Not(printable)) == "unsat" {
			parts := []*Term{KStr("\"")}
			for i := 0; i < int(ln.Hi.Int64()); i++ {
				ch := &Term{S: "(str.at " + s.S + " " + KInt64(int64(i)).S + ")", Sort: SStr}
				parts = append(parts, Ite(Eq(ch, KStr("\"")), KStr("\\\""), Ite(Eq(ch, KStr("\\")), KStr("\\\\"), ch)))
			}
			parts = append(parts, KStr("\""))
			e.res.Intrinsics["<exact> strconv.Quote (printable ASCII, length <= 8)"]++
			return e.name(Concat(parts...))
		}
	}
	r := e.ufCall(st, "quote", s)[0]
	if !s.K {
		plain := &Term{S: "(str.in_re " + s.S + " (re.* (re.union (re.range \" \" \"!\") (re.range \"#\" \"[\") (re.range \"]\" \"~\"))))", Sort: SBool}
		e.sol.Assert(Implies(plain, Eq(r, Concat(KStr("\""), s, KStr("\"")))))
		e.sol.Assert(And(StrPrefixOf(KStr("\""), r), StrSuffixOf(KStr("\""), r), Ge(StrLen(r), Add(StrLen(s), KInt64(2)))))
		// a quote or backslash in s is escaped: the result contains a backslash
		e.sol.Assert(Implies(Or(StrContains(s, KStr("\"")), StrContains(s, KStr("\\"))), StrContains(r, KStr("\\"))))
	}
	return r
}

func init() {
	reg("fmt.Sprintf", func(e *Engine, st *State, c *callCtx) bool {
		f := c.str(e, st, 0)
		if !f.K {
			unsup("fmt.Sprintf with non-constant format")
		}
		sl := c.args[1].(SliceVal)
		var args []Value
		if sl.Obj != 0 {
			if !sl.Len.K || !sl.Off.K {
				unsup("fmt.Sprintf with symbolic argument count")
			}
			arr := e.backing(st, sl.Obj).(ArrayVal)
			off := int(sl.Off.I.Int64())
			args = arr.E[off : off+int(sl.Len.I.Int64())]
		}
		var parts []*Term
		ai := 0
		format := f.Str
		for i := 0; i < len(format); {
			if format[i] != '%' {
				j := i
				for j < len(format) && format[j] != '%' {
					j++
				}
				parts = append(parts, KStr(format[i:j]))
				i = j
				continue
			}
			j := i + 1
			for j < len(format) && strings.IndexByte("0123456789.+-# ", format[j]) >= 0 {
				j++
			}
			if j >= len(format) {
				unsup("fmt.Sprintf: bad format %q", format)
			}
			verb, spec := format[j], format[i:j+1]
			i = j + 1
			if verb == '%' {
				parts = append(parts, KStr("%"))
				continue
			}
			if ai >= len(args) {
				parts = append(parts, KStr("%!"+string(verb)+"(MISSING)"))
				continue
			}
			a := args[ai]
			ai++
			parts = append(parts, e.fmtArg(st, spec, verb, a))
		}
		c.ret(st, e.name(Concat(parts...)))
		return true
	})
}

func (e *Engine) fmtArg(st *State, spec string, verb byte, a Value) *Term {
	iv, ok := a.(IfaceVal)
	if !ok {
		unsup("fmt argument %s", describe(a))
	}
	if iv.T == nil {
		return KStr("%!" + string(verb) + "(<nil>)")
	}
	plain := len(spec) == 2
	switch v := iv.V.(type) {
	case *Term:
		switch v.Sort {
		case SStr:
			if plain && (verb == 's' || verb == 'v') {
				return v
			}
			if plain && verb == 'q' {
				return e.quote(st, v)
			}
		case SInt:
			if plain && (verb == 'd' || verb == 'v') {
				return e.itoa(v)
			}
		case SBool:
			if plain && (verb == 't' || verb == 'v') {
				return Ite(v, KStr("true"), KStr("false"))
			}
		}
	case StrBytes:
		if plain && (verb == 's' || verb == 'v') {
			return e.toSMTString(st, v)
		}
	case FloatVal:
		if v.Kind.K && v.V.K && v.Kind.I.Sign() == 0 {
			f, _ := v.V.R.Float64()
			return KStr(fmt.Sprintf(spec, f))
		}
		unsup("fmt: formatting a symbolic float with %s", spec)
	case PtrVal:
		if strings.HasSuffix(iv.T.String(), "net/url.URL") && plain && (verb == 's' || verb == 'v') {
			if v.Obj == 0 {
				return KStr("<nil>")
			}
			u := e.load(st, v).(StructVal)
			ut := iv.T.(*types.Pointer).Elem()
			str := func(n string) *Term { return e.toSMTString(st, u.F[structField(ut, n)]) }
			if up, ok := u.F[structField(ut, "User")].(PtrVal); !ok || up.Obj != 0 {
				unsup("fmt: url.URL with userinfo")
			}
			return e.ufCall(st, "urlstring", str("Scheme"), str("Opaque"), str("Host"), str("Path"), str("RawPath"), u.F[structField(ut, "ForceQuery")].(*Term), str("RawQuery"), str("Fragment"), str("RawFragment"))[0]
		}
	}
	unsup("fmt: %s of %s", spec, iv.T)
	return nil
}

func init() {
	reg("os.Expand", func(e *Engine, st *State, c *callCtx) bool {
		s := c.str(e, st, 0)
		if s.K && !strings.Contains(s.Str, "$") {
			c.ret(st, s)
			return true
		}
		if e.ask(StrContains(s, KStr("$"))) == "unsat" {
			c.ret(st, s)
			return true
		}
		unsup("os.Expand on a string that may contain '$'")
		return false
	})
}

func init() {
	// tls.X509KeyPair on concrete PEM input: the real function decides; the returned certificate
	// carries the DER leaf so that x509.ParseCertificate (below) can be evaluated natively as well
	reg("crypto/tls.X509KeyPair", func(e *Engine, st *State, c *callCtx) bool {
		certPEM := e.toSMTString(st, e.snapshotBytes(st, c.args[0].(SliceVal)))
		keyPEM := e.toSMTString(st, e.snapshotBytes(st, c.args[1].(SliceVal)))
		if !certPEM.K || !keyPEM.K {
			unsup("tls.X509KeyPair on symbolic input")
		}
		ct := c.fn.Signature.Results().At(0).Type()
		cert, err := tls.X509KeyPair([]byte(certPEM.Str), []byte(keyPEM.Str))
		zero := zeroValue(ct).(StructVal)
		if err != nil {
			c.ret(st, TupleVal{zero, e.newError(st, KStr(err.Error()))})
			return true
		}
		// Certificate [][]byte: first field
		var chain []Value
		for _, der := range cert.Certificate {
			cv := make([]*Term, len(der))
			for i, b := range der {
				cv[i] = KInt64(int64(b))
			}
			ln := KInt64(int64(len(der)))
			id := st.newObj(SymArrVal{N: ln, Elem: types.Typ[types.Uint8], C: cv}, nil)
			chain = append(chain, SliceVal{Obj: id, Off: KInt64(0), Len: ln, Cap: ln})
		}
		id := st.newObj(ArrayVal{E: chain}, nil)
		n := KInt64(int64(len(chain)))
		f := append([]Value(nil), zero.F...)
		f[structField(ct, "Certificate")] = SliceVal{Obj: id, Off: KInt64(0), Len: n, Cap: n}
		c.ret(st, TupleVal{StructVal{F: f}, IfaceVal{}})
		return true
	})
	// x509.ParseCertificate on concrete DER: subject common name and DNS names from the real parser
	reg("crypto/x509.ParseCertificate", func(e *Engine, st *State, c *callCtx) bool {
		der := e.toSMTString(st, e.snapshotBytes(st, c.args[0].(SliceVal)))
		if !der.K {
			unsup("x509.ParseCertificate on symbolic input")
		}
		ct := c.fn.Signature.Results().At(0).Type().(*types.Pointer).Elem()
		xc, err := x509.ParseCertificate([]byte(der.Str))
		if err != nil {
			c.ret(st, TupleVal{nilPtr, e.newError(st, KStr(err.Error()))})
			return true
		}
		e.res.Assumptions["x509.ParseCertificate: only Subject.CommonName and DNSNames of the result are modelled"]++
		v := zeroValue(ct).(StructVal)
		f := append([]Value(nil), v.F...)
		si := structField(ct, "Subject")
		st2 := ct.Underlying().(*types.Struct).Field(si).Type()
		subj := f[si].(StructVal)
		sf := append([]Value(nil), subj.F...)
		sf[structField(st2, "CommonName")] = KStr(xc.Subject.CommonName)
		f[si] = StructVal{F: sf}
		var names []Value
		for _, d := range xc.DNSNames {
			names = append(names, KStr(d))
		}
		if len(names) > 0 {
			id := st.newObj(ArrayVal{E: names}, nil)
			n := KInt64(int64(len(names)))
			f[structField(ct, "DNSNames")] = SliceVal{Obj: id, Off: KInt64(0), Len: n, Cap: n}
		}
		c.ret(st, TupleVal{PtrVal{Obj: st.newObj(StructVal{F: f}, ct)}, IfaceVal{}})
		return true
	})
}

func init() {
	defUF("unquote", []Sort{SStr}, []Sort{SBool, SStr}, func(a []any) []any {
		r, err := strconv.Unquote(a[0].(string))
		return []any{err == nil, r}
	})
	reg("strconv.Unquote", func(e *Engine, st *State, c *callCtx) bool {
		s := c.str(e, st, 0)
		r := e.ufCall(st, "unquote", s)
		ok, v := r[0], r[1]
		if !s.K {
			e.sol.Assert(Implies(Lt(StrLen(s), KInt64(2)), Not(ok)))
			e.sol.Assert(Implies(Not(ok), Eq(v, KStr(""))))
		}
		return e.branch(st, []Alt{
			{Cond: ok, Tag: "Unquote=ok", Do: func(s2 *State) { c.ret(s2, TupleVal{v, IfaceVal{}}) }},
			{Cond: Not(ok), Tag: "Unquote=err", Do: func(s2 *State) { c.ret(s2, TupleVal{KStr(""), e.newError(s2, KStr("invalid syntax"))}) }},
		})
	})
	reg("internal/bytealg.IndexByteString", func(e *Engine, st *State, c *callCtx) bool {
		c.ret(st, e.name(StrIndexOf(c.str(e, st, 0), StrFromCode(c.term(1)), KInt64(0))))
		return true
	})
}
