package main

import (
	"fmt"
	"go/token"
	"go/types"
	"math/big"
	"strings"

	"golang.org/x/tools/go/ssa"
)

// ---------- indexing & slicing ----------

func (e *Engine) backing(st *State, obj int) Value {
	o := st.heap[obj]
	if o == nil {
		unsup("no backing object")
	}
	return o.V
}

// elemPtr produces a pointer to element (off+idx) of a backing array; for generic
// (non-SMT) backing stores a symbolic index is resolved by forking.
func (e *Engine) elemPtr(st *State, base PtrVal, abs *Term, size int, k func(s *State, p PtrVal)) bool {
	mk := func(i *Term) PtrVal {
		return PtrVal{Obj: base.Obj, Path: append(append([]PathElem(nil), base.Path...), PathElem{Idx: i})}
	}
	if abs.K || size < 0 {
		k(st, mk(abs))
		return true
	}
	var alts []Alt
	for i := 0; i < size; i++ {
		ci := KInt64(int64(i))
		alts = append(alts, Alt{Cond: Eq(abs, ci), Tag: fmt.Sprintf("idx=%d", i), Do: func(s *State) { k(s, mk(ci)) }})
	}
	return e.branch(st, alts)
}

func (e *Engine) indexAddr(st *State, x *ssa.IndexAddr) bool {
	c := e.val(st, x.X)
	idx, ok := e.val(st, x.Index).(*Term)
	if !ok {
		unsup("non-integer index")
	}
	done := func(s *State, p PtrVal) {
		s.fr.locals[x] = p
		s.fr.pc++
	}
	switch a := c.(type) {
	case SliceVal:
		bad := Or(Lt(idx, KInt64(0)), Ge(idx, a.Len))
		return e.rtCheck(st, bad, "index out of range", x, func(s *State) {
			abs := e.name(Add(a.Off, idx))
			size := -1
			if av, ok := e.backing(s, a.Obj).(ArrayVal); ok {
				size = len(av.E)
			}
			e.elemPtr(s, PtrVal{Obj: a.Obj}, abs, size, done)
		})
	case PtrVal: // pointer to array
		if a.Obj == 0 {
			e.doPanic(st, OpaqueVal{"nil pointer dereference"}, "nil-deref @ "+e.pos(x), "nil")
			return true
		}
		at := x.X.Type().Underlying().(*types.Pointer).Elem().Underlying().(*types.Array)
		n := KInt64(at.Len())
		bad := Or(Lt(idx, KInt64(0)), Ge(idx, n))
		return e.rtCheck(st, bad, "index out of range", x, func(s *State) {
			size := -1
			if _, ok := e.load(s, a).(ArrayVal); ok {
				size = int(at.Len())
			}
			e.elemPtr(s, a, idx, size, done)
		})
	}
	unsup("IndexAddr on %s", describe(c))
	return false
}

func (e *Engine) indexVal(st *State, x *ssa.Index) bool {
	c := e.val(st, x.X)
	idx, ok := e.val(st, x.Index).(*Term)
	if !ok {
		unsup("non-integer index")
	}
	switch a := c.(type) {
	case ArrayVal:
		n := KInt64(int64(len(a.E)))
		return e.rtCheck(st, Or(Lt(idx, KInt64(0)), Ge(idx, n)), "index out of range", x, func(s *State) {
			if idx.K {
				s.fr.locals[x] = a.E[idx.I.Int64()]
				s.fr.pc++
				return
			}
			var alts []Alt
			for i := range a.E {
				v := a.E[i]
				alts = append(alts, Alt{Cond: Eq(idx, KInt64(int64(i))), Do: func(s2 *State) { s2.fr.locals[x] = v; s2.fr.pc++ }})
			}
			e.branch(s, alts)
		})
	case SymArrVal:
		return e.rtCheck(st, Or(Lt(idx, KInt64(0)), Ge(idx, a.N)), "index out of range", x, func(s *State) {
			s.fr.locals[x] = e.selectArr(a, idx)
			s.fr.pc++
		})
	case *Term, StrBytes:
		return e.stringIndex(st, x, c, idx, x)
	}
	unsup("Index on %s", describe(c))
	return false
}

func (e *Engine) stringIndex(st *State, in ssa.Instruction, s Value, idx *Term, dst ssa.Value) bool {
	ln := e.strLen(st, s)
	return e.rtCheck(st, Or(Lt(idx, KInt64(0)), Ge(idx, ln)), "index out of range", in, func(s2 *State) {
		s2.fr.locals[dst] = e.strAt(s2, s, idx)
		s2.fr.pc++
	})
}

func (e *Engine) strLen(st *State, s Value) *Term {
	switch x := s.(type) {
	case *Term:
		return StrLen(x)
	case StrBytes:
		return x.Len
	}
	unsup("len of %s", describe(s))
	return nil
}

func (e *Engine) strAt(st *State, s Value, idx *Term) *Term {
	switch x := s.(type) {
	case *Term:
		c := StrAtCode(x, idx)
		if c.K {
			return c
		}
		if x.K && len(x.Str) <= 64 {
			// constant table indexed symbolically: pure integer ite chain
			el := make([]Value, len(x.Str))
			for i := range el {
				el[i] = KInt64(int64(x.Str[i]))
			}
			return e.iteChain(el, idx).(*Term)
		}
		n := e.name(c)
		e.sol.Assert(Le(stripFacts(n), KInt64(255)))
		return n
	case StrBytes:
		arr := e.backing(st, x.Obj).(SymArrVal)
		return e.selectArr(arr, e.name(Add(x.Off, idx))).(*Term)
	}
	unsup("index of %s", describe(s))
	return nil
}

func (e *Engine) sliceInstr(st *State, x *ssa.Slice) bool {
	c := e.val(st, x.X)
	get := func(v ssa.Value) *Term {
		if v == nil {
			return nil
		}
		t, ok := e.val(st, v).(*Term)
		if !ok {
			unsup("non-integer slice bound")
		}
		return t
	}
	lo, hi, mx := get(x.Low), get(x.High), get(x.Max)
	if lo == nil {
		lo = KInt64(0)
	}
	done := func(s *State, v Value) {
		s.fr.locals[x] = v
		s.fr.pc++
	}
	switch a := c.(type) {
	case *Term: // SMT string
		ln := StrLen(a)
		if hi == nil {
			hi = ln
		}
		bad := Or(Lt(lo, KInt64(0)), Gt(lo, hi), Gt(hi, ln))
		return e.rtCheck(st, bad, "slice bounds out of range", x, func(s *State) {
			done(s, e.name(Substr(a, lo, e.name(Sub(hi, lo)))))
		})
	case StrBytes:
		if hi == nil {
			hi = a.Len
		}
		bad := Or(Lt(lo, KInt64(0)), Gt(lo, hi), Gt(hi, a.Len))
		return e.rtCheck(st, bad, "slice bounds out of range", x, func(s *State) {
			done(s, StrBytes{Obj: a.Obj, Off: e.name(Add(a.Off, lo)), Len: e.name(Sub(hi, lo))})
		})
	case SliceVal:
		if hi == nil {
			hi = a.Len
		}
		capT := a.Cap
		var bad *Term
		if mx != nil {
			bad = Or(Lt(lo, KInt64(0)), Gt(lo, hi), Gt(hi, mx), Gt(mx, a.Cap))
		} else {
			bad = Or(Lt(lo, KInt64(0)), Gt(lo, hi), Gt(hi, a.Cap))
		}
		return e.rtCheck(st, bad, "slice bounds out of range", x, func(s *State) {
			nc := e.name(Sub(capT, lo))
			if mx != nil {
				nc = e.name(Sub(mx, lo))
			}
			if a.Obj == 0 {
				done(s, a)
				return
			}
			done(s, SliceVal{Obj: a.Obj, Off: e.name(Add(a.Off, lo)), Len: e.name(Sub(hi, lo)), Cap: nc})
		})
	case PtrVal: // pointer to array
		if a.Obj == 0 {
			e.doPanic(st, OpaqueVal{"nil pointer dereference"}, "nil-deref @ "+e.pos(x), "nil")
			return true
		}
		at := x.X.Type().Underlying().(*types.Pointer).Elem().Underlying().(*types.Array)
		n := KInt64(at.Len())
		if hi == nil {
			hi = n
		}
		if len(a.Path) != 0 {
			unsup("slice of array embedded in another object")
		}
		bad := Or(Lt(lo, KInt64(0)), Gt(lo, hi), Gt(hi, n))
		return e.rtCheck(st, bad, "slice bounds out of range", x, func(s *State) {
			nc := e.name(Sub(n, lo))
			if mx != nil {
				nc = e.name(Sub(mx, lo))
			}
			done(s, SliceVal{Obj: a.Obj, Off: lo, Len: e.name(Sub(hi, lo)), Cap: nc})
		})
	}
	unsup("Slice on %s", describe(c))
	return false
}

func (e *Engine) makeSlice(st *State, x *ssa.MakeSlice) bool {
	ln, ok1 := e.val(st, x.Len).(*Term)
	cp, ok2 := e.val(st, x.Cap).(*Term)
	if !ok1 || !ok2 {
		unsup("MakeSlice with non-integer size")
	}
	et := x.Type().Underlying().(*types.Slice).Elem()
	bad := Or(Lt(ln, KInt64(0)), Gt(ln, cp), Gt(cp, KInt(maxLen)))
	return e.rtCheck(st, bad, "makeslice: len out of range", x, func(s *State) {
		if isIntElem(et) {
			var av SymArrVal
			if cp.K && cp.I.IsInt64() && cp.I.Int64() <= maxConcArr {
				av = SymArrVal{N: cp, Elem: et, C: zeroConc(cp.I.Int64())}
			} else {
				av = SymArrVal{A: constZeroArr, N: cp, Elem: et}
			}
			id := s.newObj(av, nil)
			s.fr.locals[x] = SliceVal{Obj: id, Off: KInt64(0), Len: ln, Cap: cp}
			s.fr.pc++
			return
		}
		if !cp.K {
			limit := e.cfg.Params["CONCRETIZE"]
			if limit == 0 {
				limit = 16
			}
			if e.ask(Gt(cp, KInt64(int64(limit)))) != "unsat" {
				// too large to spell out: the slice exists but its elements are not modelled
				id := s.newObj(OpaqueVal{"elements of a slice of symbolic size"}, nil)
				s.fr.locals[x] = SliceVal{Obj: id, Off: KInt64(0), Len: ln, Cap: cp}
				s.fr.pc++
				return
			}
		}
		e.concretize(s, cp, "makeslice cap", func(s2 *State, n int) {
			el := make([]Value, n)
			z := zeroValue(et)
			for i := range el {
				el[i] = z
			}
			id := s2.newObj(ArrayVal{E: el}, nil)
			s2.fr.locals[x] = SliceVal{Obj: id, Off: KInt64(0), Len: ln, Cap: KInt64(int64(n))}
			s2.fr.pc++
		})
	})
}

// concretize forks over the feasible values of a small non-negative integer term
func (e *Engine) concretize(st *State, t *Term, what string, k func(s *State, n int)) bool {
	if t.K {
		k(st, int(t.I.Int64()))
		return true
	}
	limit := e.cfg.Params["CONCRETIZE"]
	if limit == 0 {
		limit = 16
	}
	if r := e.ask(Gt(t, KInt64(int64(limit)))); r != "unsat" {
		unsup("UNWIND concretisation bound %d too small for %s", limit, what)
	}
	var alts []Alt
	for i := 0; i <= limit; i++ {
		n := i
		alts = append(alts, Alt{Cond: Eq(t, KInt64(int64(i))), Tag: fmt.Sprintf("%s=%d", what, i), Do: func(s *State) { k(s, n) }})
	}
	return e.branch(st, alts)
}

// ---------- conversions ----------

func (e *Engine) convert(st *State, v Value, from, to types.Type) Value {
	if _, ok := v.(OpaqueVal); ok {
		return v
	}
	fi, ti := intInfoOf(from), intInfoOf(to)
	switch {
	case fi != nil && ti != nil:
		return e.norm(v.(*Term), to)
	case fi != nil && isFloat(to):
		return FloatVal{Kind: KInt64(0), V: ToReal(v.(*Term))}
	case isFloat(from) && ti != nil:
		return e.floatToInt(v.(FloatVal), to)
	case isFloat(from) && isFloat(to):
		return v
	case isString(from) && isString(to):
		return v
	case fi != nil && isString(to):
		// string(rune)
		t := v.(*Term)
		if t.K {
			return KStr(string(rune(t.I.Int64())))
		}
		e.res.Assumptions["string(rune): rune is ASCII"]++
		e.sol.Assert(And(Le(KInt64(0), t), Lt(t, KInt64(128))))
		return StrFromCode(t)
	}
	// string <-> []byte / []rune
	if isString(from) {
		if sl, ok := to.Underlying().(*types.Slice); ok {
			eb, _ := sl.Elem().Underlying().(*types.Basic)
			if eb != nil && (eb.Kind() == types.Uint8 || eb.Kind() == types.Int32) {
				if eb.Kind() == types.Int32 {
					e.res.Assumptions["[]rune(s): s is ASCII"]++
				}
				return e.stringToBytes(st, v, sl.Elem(), eb.Kind() == types.Int32)
			}
		}
	}
	if sl, ok := from.Underlying().(*types.Slice); ok && isString(to) {
		eb, _ := sl.Elem().Underlying().(*types.Basic)
		s := v.(SliceVal)
		if s.Obj == 0 {
			return KStr("")
		}
		if eb != nil && eb.Kind() == types.Uint8 {
			return e.snapshotBytes(st, s)
		}
		if eb != nil && eb.Kind() == types.Int32 {
			e.res.Assumptions["string([]rune): runes are ASCII"]++
			return e.snapshotBytes(st, s)
		}
	}
	if _, ok := to.Underlying().(*types.Pointer); ok {
		if _, ok := v.(PtrVal); ok {
			return v
		}
	}
	if b, ok := to.Underlying().(*types.Basic); ok && b.Kind() == types.UnsafePointer {
		return v
	}
	if b, ok := from.Underlying().(*types.Basic); ok && b.Kind() == types.UnsafePointer {
		return v
	}
	unsup("convert %s -> %s", from, to)
	return nil
}

func (e *Engine) stringToBytes(st *State, v Value, elem types.Type, runes bool) Value {
	switch x := v.(type) {
	case StrBytes:
		// copy semantics: a fresh array equal to the view
		if x.Obj == 0 {
			return SliceVal{Off: KInt64(0), Len: KInt64(0), Cap: KInt64(0)}
		}
		src := e.backing(st, x.Obj).(SymArrVal)
		id := st.newObj(SymArrVal{A: src.A, N: src.N, Elem: elem, NeedRange: src.NeedRange, C: src.C}, nil)
		return SliceVal{Obj: id, Off: x.Off, Len: x.Len, Cap: x.Len}
	case *Term:
		if x.K {
			cv := make([]*Term, len(x.Str))
			for i := 0; i < len(x.Str); i++ {
				cv[i] = KInt64(int64(x.Str[i]))
			}
			ln := KInt64(int64(len(x.Str)))
			id := st.newObj(SymArrVal{N: ln, Elem: elem, C: cv}, nil)
			return SliceVal{Obj: id, Off: KInt64(0), Len: ln, Cap: ln}
		}
		ln := StrLen(x)
		k := e.materialBound(ln)
		a := e.freshVar("arr", SArr)
		for i := 0; i < k; i++ {
			ci := KInt64(int64(i))
			c := StrAtCode(x, ci)
			e.sol.Assert(Implies(Lt(ci, ln), Eq(Select(a, ci), c)))
			if runes {
				e.sol.Assert(Implies(Lt(ci, ln), Lt(c, KInt64(128))))
			}
		}
		lnn := e.name(ln)
		id := st.newObj(SymArrVal{A: a, N: lnn, Elem: elem, NeedRange: true, FromStr: x}, nil)
		return SliceVal{Obj: id, Off: KInt64(0), Len: lnn, Cap: lnn}
	}
	unsup("[]byte(%s)", describe(v))
	return nil
}

// ---------- maps ----------

func (e *Engine) keyEq(st *State, a, b Value, t types.Type) *Term {
	return e.equal(st, a, b, t)
}

func (e *Engine) lookup(st *State, x *ssa.Lookup) bool {
	c := e.val(st, x.X)
	k := e.val(st, x.Index)
	if isString(x.X.Type()) {
		idx := k.(*Term)
		return e.stringIndex(st, x, c, idx, x)
	}
	m, ok := c.(MapVal)
	if !ok {
		if _, ok := c.(OpaqueVal); ok {
			unsup("lookup in opaque map")
		}
		unsup("Lookup on %s", describe(c))
	}
	mt := x.X.Type().Underlying().(*types.Map)
	zero := zeroValue(mt.Elem())
	ret := func(s *State, v Value, found bool) {
		if x.CommaOk {
			s.fr.locals[x] = TupleVal{v, KBool(found)}
		} else {
			s.fr.locals[x] = v
		}
		s.fr.pc++
	}
	if m.Obj == 0 {
		ret(st, zero, false)
		return true
	}
	return e.mapFind(st, m, k, mt.Key(), func(s *State, i int) {
		if i < 0 {
			ret(s, zero, false)
		} else {
			ret(s, s.heap[m.Obj].M.E[i].V, true)
		}
	})
}

// mapFind forks over which entry (if any) equals key k
func (e *Engine) mapFind(st *State, m MapVal, k Value, kt types.Type, cont func(s *State, i int)) bool {
	ents := st.heap[m.Obj].M.E
	var alts []Alt
	var none []*Term
	for i := range ents {
		c := e.keyEq(st, ents[i].K, k, kt)
		if c.K && !c.B {
			continue
		}
		idx := i
		alts = append(alts, Alt{Cond: c, Tag: fmt.Sprintf("key=#%d", i), Do: func(s *State) { cont(s, idx) }})
		if c.K && c.B {
			return e.branch(st, alts[len(alts)-1:])
		}
		none = append(none, Not(c))
	}
	alts = append(alts, Alt{Cond: And(none...), Tag: "key=none", Do: func(s *State) { cont(s, -1) }})
	return e.branch(st, alts)
}

func (e *Engine) mapUpdate(st *State, x *ssa.MapUpdate) bool {
	c := e.val(st, x.Map)
	k := e.val(st, x.Key)
	v := e.val(st, x.Value)
	m, ok := c.(MapVal)
	if !ok {
		unsup("MapUpdate on %s", describe(c))
	}
	if m.Obj == 0 {
		e.doPanic(st, OpaqueVal{"assignment to entry in nil map"}, "nil-map @ "+e.pos(x), "nilmap")
		return true
	}
	mt := x.Map.Type().Underlying().(*types.Map)
	return e.mapFind(st, m, k, mt.Key(), func(s *State, i int) {
		e.mapSet(s, m, i, k, v)
		s.fr.pc++
	})
}

func (e *Engine) mapSet(s *State, m MapVal, i int, k, v Value) {
	o := s.heap[m.Obj]
	ne := append([]MapEntry(nil), o.M.E...)
	if i < 0 {
		ne = append(ne, MapEntry{K: k, V: v})
	} else {
		ne[i] = MapEntry{K: ne[i].K, V: v}
	}
	s.heap[m.Obj] = &Obj{M: &MapObj{E: ne}, T: o.T}
}

func (e *Engine) mapDelete(s *State, m MapVal, i int) {
	o := s.heap[m.Obj]
	ne := append([]MapEntry(nil), o.M.E[:i]...)
	ne = append(ne, o.M.E[i+1:]...)
	s.heap[m.Obj] = &Obj{M: &MapObj{E: ne}, T: o.T}
}

// iterator state for Range/Next
type IterVal struct {
	IsStr bool
	Str   Value
	Pos   *Term
	Keys  []MapEntry // snapshot for maps
	I     int
}

func (e *Engine) rangeInstr(st *State, x *ssa.Range) bool {
	c := e.val(st, x.X)
	if isString(x.X.Type()) {
		e.res.Assumptions["range over string: string is ASCII (1 rune = 1 byte)"]++
		id := st.newObj(IterVal{IsStr: true, Str: c, Pos: KInt64(0)}, nil)
		st.fr.locals[x] = PtrVal{Obj: id}
		st.fr.pc++
		return true
	}
	m, ok := c.(MapVal)
	if !ok {
		unsup("Range on %s", describe(c))
	}
	var ents []MapEntry
	if m.Obj != 0 {
		ents = st.heap[m.Obj].M.E
		e.res.Assumptions["map iteration in insertion order (one legal order)"]++
	}
	id := st.newObj(IterVal{Keys: ents}, nil)
	st.fr.locals[x] = PtrVal{Obj: id}
	st.fr.pc++
	return true
}

func (e *Engine) nextInstr(st *State, x *ssa.Next) bool {
	p := e.val(st, x.Iter).(PtrVal)
	it := st.heap[p.Obj].V.(IterVal)
	if !x.IsString {
		if it.I >= len(it.Keys) {
			tt := x.Type().(*types.Tuple)
			st.fr.locals[x] = TupleVal{tFalse, zeroValue(tt.At(1).Type()), zeroValue(tt.At(2).Type())}
		} else {
			en := it.Keys[it.I]
			st.fr.locals[x] = TupleVal{tTrue, en.K, en.V}
			it.I++
			st.heap[p.Obj] = &Obj{V: it}
		}
		st.fr.pc++
		return true
	}
	ln := e.strLen(st, it.Str)
	more := Lt(it.Pos, ln)
	pos := it.Pos
	return e.branch(st, []Alt{
		{Cond: more, Tag: "range-more", Do: func(s *State) {
			c := e.strAt(s, it.Str, pos)
			if !c.K {
				e.sol.Assert(Lt(stripFacts(c), KInt64(128)))
			} else if c.I.Int64() >= 128 {
				unsup("range over non-ASCII constant string")
			}
			s.fr.locals[x] = TupleVal{tTrue, pos, c}
			ni := it
			ni.Pos = e.name(Add(pos, KInt64(1)))
			s.heap[p.Obj] = &Obj{V: ni}
			s.fr.pc++
		}},
		{Cond: Not(more), Tag: "range-done", Do: func(s *State) {
			s.fr.locals[x] = TupleVal{tFalse, KInt64(0), KInt64(0)}
			s.fr.pc++
		}},
	})
}

// ---------- type assertions ----------

func (e *Engine) typeAssert(st *State, x *ssa.TypeAssert) bool {
	v := e.val(st, x.X)
	iv, ok := v.(IfaceVal)
	if !ok {
		if _, ok := v.(OpaqueVal); ok {
			unsup("type assertion on opaque value")
		}
		unsup("TypeAssert on %s", describe(v))
	}
	okv := false
	var res Value
	if iv.T != nil {
		if it, isIface := x.AssertedType.Underlying().(*types.Interface); isIface {
			okv = types.Implements(iv.T, it)
			if _, g := iv.V.(GlobVal); g && strings.HasSuffix(x.AssertedType.String(), "glob.Glob") {
				okv = true
			}
			if _, sb := iv.V.(stubObj); sb {
				okv = true
			}
			if !okv {
				// pointer receiver methods
				okv = types.AssignableTo(iv.T, x.AssertedType)
			}
			res = iv
		} else {
			okv = types.Identical(iv.T, x.AssertedType)
			res = iv.V
		}
	}
	if x.CommaOk {
		if !okv {
			res = zeroValue(x.AssertedType)
		}
		st.fr.locals[x] = TupleVal{res, KBool(okv)}
		st.fr.pc++
		return true
	}
	if !okv {
		e.doPanic(st, OpaqueVal{"interface conversion"}, "type-assert @ "+e.pos(x), "typeassert")
		return true
	}
	st.fr.locals[x] = res
	st.fr.pc++
	return true
}

// ---------- channels (coarse) ----------

func (e *Engine) chanInstr(st *State, in ssa.Instruction) bool {
	unsup("channel operation %T", in)
	return false
}

// ---------- calls ----------

func (e *Engine) callInstr(st *State, x *ssa.Call) bool {
	c := x.Common()
	args := make([]Value, len(c.Args))
	for i, a := range c.Args {
		args[i] = e.val(st, a)
	}
	ret := func(s *State, rv Value) {
		s.fr.locals[x] = rv
		s.fr.pc++
	}
	if c.IsInvoke() {
		recv := e.val(st, c.Value)
		return e.invokeMethod(st, recv, c.Method, args, x, ret)
	}
	if b, ok := c.Value.(*ssa.Builtin); ok {
		return e.builtin(st, b.Name(), args, c, x, ret)
	}
	fvv := e.val(st, c.Value)
	fv, ok := fvv.(FuncVal)
	if !ok {
		if st.fr.tolerant {
			ret(st, OpaqueVal{"call of opaque"})
			return true
		}
		unsup("call of %s", describe(fvv))
	}
	if fv.Fn == nil && fv.Name == "" {
		e.doPanic(st, OpaqueVal{"nil func call"}, "nil-func @ "+e.pos(x), "nil")
		return true
	}
	return e.invoke(st, fv, args, x, ret)
}

func (e *Engine) invokeMethod(st *State, recv Value, m *types.Func, args []Value, site ssa.Instruction, ret func(*State, Value)) bool {
	iv, ok := recv.(IfaceVal)
	if !ok {
		if _, isOp := recv.(OpaqueVal); isOp && st.fr != nil && st.fr.tolerant {
			ret(st, OpaqueVal{"invoke on opaque"})
			return true
		}
		unsup("invoke %s on %s", m.Name(), describe(recv))
	}
	if g, isGlob := iv.V.(GlobVal); isGlob && m.Name() == "Match" {
		ret(st, e.globMatch(st, g, e.toSMTString(st, args[0])))
		return true
	}
	if _, isStub := iv.V.(stubObj); isStub {
		// object handed out by an empty-bodied package (metrics, tracing): its methods do nothing
		e.res.Intrinsics["<empty body> method "+m.Name()+" on stub"]++
		ret(st, stubResults(m.Type().(*types.Signature)))
		return true
	}
	if iv.T == nil {
		where := ""
		if site != nil {
			where = e.pos(site)
		}
		e.doPanic(st, OpaqueVal{"nil interface method call"}, "nil-deref @ "+where, "nil")
		return true
	}
	key := iv.T.String() + "." + m.Id()
	fn, ok := e.methCache[key]
	if !ok {
		ms := e.prog.MethodSets.MethodSet(iv.T)
		sel := ms.Lookup(m.Pkg(), m.Name())
		if sel != nil {
			fn = e.prog.MethodValue(sel)
		}
		e.methCache[key] = fn
	}
	if fn == nil {
		unsup("no method %s on %s", m.Name(), iv.T)
	}
	return e.invoke(st, FuncVal{Fn: fn}, append([]Value{iv.V}, args...), site, ret)
}

func (e *Engine) invoke(st *State, fv FuncVal, args []Value, site ssa.Instruction, ret func(*State, Value)) bool {
	if fv.Fn == nil {
		if strings.HasPrefix(fv.Name, "builtin.") {
			return e.builtin(st, fv.Name[8:], args, nil, site, ret)
		}
		unsup("call of function value %q", fv.Name)
	}
	fn := fv.Fn
	name := fn.String()
	if fn.Pkg != nil && fn.Pkg.Pkg.Path() == e.vpPkg && fn.Signature.Recv() == nil && !vpBodies[fn.Name()] && fn.Parent() == nil {
		return e.vpCall(st, fn.Name(), args, site, ret)
	}
	if fn.Name() == "init" && fn.Synthetic != "" && fn.Pkg != nil && !e.initAllowed(fn.Pkg.Pkg.Path()) {
		// initialiser of a package that is not on the init list: skipped (its globals stay unallocated)
		ret(st, nil)
		return true
	}
	if len(st.ghost) > 0 {
		if _, cut := st.ghost["cut:"+name]; cut && st.fr != nil && st.fr.caller != nil {
			e.doReturn(st, zeroResults(st.fr.fn))
			return true
		}
	}
	if h, ok := intrinsics[name]; ok {
		cc := &callCtx{args: args, site: site, ret: ret, fn: fn}
		r := h(e, st, cc)
		if !cc.declined {
			e.res.Intrinsics[name]++
			return r
		}
	}
	if fn.Synthetic != "" && fn.Blocks == nil {
		unsup("synthetic function without body: %s", name)
	}
	if fn.Blocks == nil {
		if st.fr != nil && st.fr.tolerant {
			ret(st, OpaqueVal{"result of " + name})
			return true
		}
		unsup("external function %s", name)
	}
	if isEmptyBodyPkg(fn) {
		e.res.Intrinsics["<empty body> "+name]++
		ret(st, stubResults(fn.Signature))
		return true
	}
	e.res.Funcs[name]++
	nf := &Frame{fn: fn, blk: fn.Blocks[0], locals: make(map[ssa.Value]Value, 16), caller: st.fr, onRet: ret}
	if st.fr != nil && st.fr.tolerant {
		nf.tolerant = true
	}
	if len(args) != len(fn.Params) {
		unsup("argument count mismatch calling %s", name)
	}
	for i, p := range fn.Params {
		nf.locals[p] = args[i]
	}
	for i, fvr := range fn.FreeVars {
		if i >= len(fv.Bind) {
			unsup("missing closure binding for %s", name)
		}
		nf.locals[fvr] = fv.Bind[i]
	}
	st.fr = nf
	if d := frameDepth(nf); d > 200 {
		unsup("call depth > 200 (recursion?) in %s", name)
	}
	return true
}

func frameDepth(f *Frame) int {
	n := 0
	for ; f != nil; f = f.caller {
		n++
	}
	return n
}

// stubObj is the value behind interfaces returned by empty-bodied packages
type stubObj struct{}

func stubValue(t types.Type) Value {
	if _, ok := t.Underlying().(*types.Interface); ok {
		return IfaceVal{T: types.Typ[types.UnsafePointer], V: stubObj{}}
	}
	return zeroValue(t)
}

func stubResults(sig *types.Signature) Value {
	res := sig.Results()
	switch res.Len() {
	case 0:
		return nil
	case 1:
		return stubValue(res.At(0).Type())
	}
	t := make(TupleVal, res.Len())
	for i := range t {
		t[i] = stubValue(res.At(i).Type())
	}
	return t
}

// packages whose functions are given empty bodies (logging, metrics, tracing)
func isEmptyBodyPkg(fn *ssa.Function) bool {
	if fn.Pkg == nil {
		return false
	}
	p := fn.Pkg.Pkg.Path()
	switch {
	case p == "log":
		return true
	case strings.HasPrefix(p, "github.com/go-kit/kit/metrics"):
		return true
	case strings.HasPrefix(p, "github.com/fabiolb/fabio/trace"):
		return true
	}
	return false
}

// ---------- builtins ----------

func (e *Engine) builtin(st *State, name string, args []Value, c *ssa.CallCommon, site ssa.Instruction, ret func(*State, Value)) bool {
	switch name {
	case "len":
		switch a := args[0].(type) {
		case SliceVal:
			ret(st, a.Len)
		case *Term:
			ret(st, StrLen(a))
		case StrBytes:
			ret(st, a.Len)
		case MapVal:
			if a.Obj == 0 {
				ret(st, KInt64(0))
			} else {
				ret(st, KInt64(int64(len(st.heap[a.Obj].M.E))))
			}
		case ArrayVal:
			ret(st, KInt64(int64(len(a.E))))
		case SymArrVal:
			ret(st, a.N)
		case PtrVal: // *array
			v := e.load(st, a)
			switch av := v.(type) {
			case ArrayVal:
				ret(st, KInt64(int64(len(av.E))))
			case SymArrVal:
				ret(st, av.N)
			default:
				unsup("len of pointer to %s", describe(v))
			}
		case ChanVal:
			ret(st, KInt64(0))
		default:
			unsup("len of %s", describe(args[0]))
		}
		return true
	case "cap":
		switch a := args[0].(type) {
		case SliceVal:
			ret(st, a.Cap)
		default:
			unsup("cap of %s", describe(args[0]))
		}
		return true
	case "append":
		return e.appendBuiltin(st, args, c, site, ret)
	case "copy":
		return e.copyBuiltin(st, args, site, ret)
	case "delete":
		m := args[0].(MapVal)
		if m.Obj == 0 {
			ret(st, nil)
			return true
		}
		var kt types.Type
		if o := st.heap[m.Obj]; o.T != nil {
			kt = o.T.Underlying().(*types.Map).Key()
		}
		return e.mapFind(st, m, args[1], kt, func(s *State, i int) {
			if i >= 0 {
				e.mapDelete(s, m, i)
			}
			ret(s, nil)
		})
	case "panic":
		e.doPanic(st, args[0], "panic", "explicit")
		return true
	case "recover":
		if st.panic != nil {
			v := st.panic.Val
			st.panic = nil
			if iv, ok := v.(IfaceVal); ok {
				ret(st, iv)
			} else {
				ret(st, IfaceVal{T: types.Typ[types.String], V: KStr("runtime error")})
			}
		} else {
			ret(st, IfaceVal{})
		}
		return true
	case "print", "println":
		ret(st, nil)
		return true
	case "min", "max":
		a, b := args[0].(*Term), args[1].(*Term)
		if name == "min" {
			ret(st, e.name(Ite(Le(a, b), a, b)))
		} else {
			ret(st, e.name(Ite(Ge(a, b), a, b)))
		}
		return true
	case "close":
		e.chanClose(st, args[0])
		if st.fr != nil && st.panic == nil {
			ret(st, nil)
		}
		return true
	case "ssa:wrapnilchk":
		p, ok := args[0].(PtrVal)
		if ok && p.Obj == 0 {
			e.doPanic(st, OpaqueVal{"nil receiver"}, "nil-deref", "nil")
			return true
		}
		ret(st, args[0])
		return true
	case "clear":
		if m, ok := args[0].(MapVal); ok {
			if m.Obj != 0 {
				o := st.heap[m.Obj]
				st.heap[m.Obj] = &Obj{M: &MapObj{}, T: o.T}
			}
			ret(st, nil)
			return true
		}
		if sl, ok := args[0].(SliceVal); ok {
			if sl.Obj == 0 {
				ret(st, nil)
				return true
			}
			if !sl.Off.K || !sl.Len.K {
				unsup("clear of a slice with symbolic bounds")
			}
			off, ln := int(sl.Off.I.Int64()), int(sl.Len.I.Int64())
			switch b := e.backing(st, sl.Obj).(type) {
			case SymArrVal:
				if b.C == nil {
					unsup("clear of an SMT array")
				}
				c := append([]*Term(nil), b.C...)
				for i := off; i < off+ln; i++ {
					c[i] = KInt64(0)
				}
				b.C = c
				b.FromStr = nil
				st.heap[sl.Obj] = &Obj{V: b, T: st.heap[sl.Obj].T}
				ret(st, nil)
				return true
			}
			unsup("clear of a slice over %s", describe(e.backing(st, sl.Obj)))
		}
	}
	unsup("builtin %s", name)
	return false
}

func (e *Engine) appendBuiltin(st *State, args []Value, c *ssa.CallCommon, site ssa.Instruction, ret func(*State, Value)) bool {
	s, ok := args[0].(SliceVal)
	if !ok {
		unsup("append to %s", describe(args[0]))
	}
	// append([]byte, string...)
	var add SliceVal
	switch a := args[1].(type) {
	case SliceVal:
		add = a
	case *Term, StrBytes:
		add = e.stringToBytes(st, a, types.Typ[types.Uint8], false).(SliceVal)
	default:
		unsup("append of %s", describe(args[1]))
	}
	if add.Obj == 0 || (add.Len.K && add.Len.I.Sign() == 0) {
		ret(st, s)
		return true
	}
	newLen := e.name(Add(s.Len, add.Len))
	// integer elements: SMT arrays
	if ab, ok := e.backing(st, add.Obj).(SymArrVal); ok {
		var dst SymArrVal
		if s.Obj != 0 {
			dst = e.backing(st, s.Obj).(SymArrVal)
		} else {
			dst = SymArrVal{A: constZeroArr, N: KInt64(0), Elem: ab.Elem}
		}
		if s.Len.K && add.Len.K && s.Off.K && add.Off.K && s.Len.I.Int64()+add.Len.I.Int64() <= maxConcArr {
			n1, n2 := int(s.Len.I.Int64()), int(add.Len.I.Int64())
			cv := make([]*Term, 0, n1+n2)
			for i := 0; i < n1; i++ {
				cv = append(cv, e.selectArr(dst, Add(s.Off, KInt64(int64(i)))).(*Term))
			}
			for i := 0; i < n2; i++ {
				cv = append(cv, e.selectArr(ab, Add(add.Off, KInt64(int64(i)))).(*Term))
			}
			id := st.newObj(SymArrVal{N: newLen, Elem: ab.Elem, C: cv}, nil)
			ret(st, SliceVal{Obj: id, Off: KInt64(0), Len: newLen, Cap: newLen})
			return true
		}
		// always copy into a fresh backing array laid out from index 0 (append growth is unspecified)
		n1 := e.boundOf(s.Len, "append")
		n2 := e.boundOf(add.Len, "append")
		arr := e.freshVar("arr", SArr)
		if s.Len.K && add.Len.K {
			cur := constZeroArr
			for i := 0; i < n1; i++ {
				cur = StoreT(cur, KInt64(int64(i)), e.selectArr(dst, Add(s.Off, KInt64(int64(i)))).(*Term))
			}
			for i := 0; i < n2; i++ {
				cur = StoreT(cur, KInt64(int64(n1+i)), e.selectArr(ab, Add(add.Off, KInt64(int64(i)))).(*Term))
			}
			e.sol.Assert(&Term{S: "(= " + arr.S + " " + cur.S + ")", Sort: SBool})
		} else {
			for i := 0; i < n1; i++ {
				ci := KInt64(int64(i))
				e.sol.Assert(Implies(Lt(ci, s.Len), Eq(Select(arr, ci), e.selectArr(dst, Add(s.Off, ci)).(*Term))))
			}
			for i := 0; i < n2; i++ {
				ci := KInt64(int64(i))
				e.sol.Assert(Implies(Lt(ci, add.Len), Eq(Select(arr, e.name(Add(s.Len, ci))), e.selectArr(ab, Add(add.Off, ci)).(*Term))))
			}
		}
		id := st.newObj(SymArrVal{A: arr, N: newLen, Elem: ab.Elem, NeedRange: true}, nil)
		ret(st, SliceVal{Obj: id, Off: KInt64(0), Len: newLen, Cap: newLen})
		return true
	}
	// generic elements: concrete lengths required
	return e.concretize(st, s.Len, "append len", func(s1 *State, n1 int) {
		e.concretize(s1, add.Len, "append add", func(s2 *State, n2 int) {
			e.concretize(s2, s.Off, "append off", func(s3 *State, o1 int) {
				e.concretize(s3, add.Off, "append off2", func(s4 *State, o2 int) {
					var el []Value
					if s.Obj != 0 {
						src := e.backing(s4, s.Obj).(ArrayVal)
						el = append(el, src.E[o1:o1+n1]...)
					}
					asrc := e.backing(s4, add.Obj).(ArrayVal)
					el = append(el, asrc.E[o2:o2+n2]...)
					id := s4.newObj(ArrayVal{E: el}, nil)
					ln := KInt64(int64(len(el)))
					ret(s4, SliceVal{Obj: id, Off: KInt64(0), Len: ln, Cap: ln})
				})
			})
		})
	})
}

func (e *Engine) boundOf(n *Term, what string) int {
	if n.K {
		return int(n.I.Int64())
	}
	return e.materialBound(n)
}

func (e *Engine) copyBuiltin(st *State, args []Value, site ssa.Instruction, ret func(*State, Value)) bool {
	dst, ok := args[0].(SliceVal)
	if !ok {
		unsup("copy to %s", describe(args[0]))
	}
	var src SliceVal
	switch a := args[1].(type) {
	case SliceVal:
		src = a
	case *Term, StrBytes:
		src = e.stringToBytes(st, a, types.Typ[types.Uint8], false).(SliceVal)
	default:
		unsup("copy from %s", describe(args[1]))
	}
	n := e.name(Ite(Le(dst.Len, src.Len), dst.Len, src.Len))
	if dst.Obj == 0 || src.Obj == 0 || (n.K && n.I.Sign() == 0) {
		ret(st, n)
		return true
	}
	if db, ok := e.backing(st, dst.Obj).(SymArrVal); ok {
		sb := e.backing(st, src.Obj).(SymArrVal)
		k := e.boundOf(n, "copy")
		// read all source values first (memmove semantics)
		vals := make([]*Term, k)
		for i := 0; i < k; i++ {
			vals[i] = e.selectArr(sb, e.name(Add(src.Off, KInt64(int64(i))))).(*Term)
		}
		if db.C != nil && n.K && dst.Off.K {
			nc := append([]*Term(nil), db.C...)
			o0 := int(dst.Off.I.Int64())
			for i := 0; i < k; i++ {
				nc[o0+i] = vals[i]
			}
			o := st.heap[dst.Obj]
			st.heap[dst.Obj] = &Obj{V: SymArrVal{N: db.N, Elem: db.Elem, C: nc}, T: o.T}
			ret(st, n)
			return true
		}
		cur := e.arrSMT(db)
		for i := 0; i < k; i++ {
			ci := KInt64(int64(i))
			st1 := StoreT(cur, e.name(Add(dst.Off, ci)), vals[i])
			if n.K {
				cur = st1
			} else {
				cur = &Term{S: "(ite " + Lt(ci, n).S + " " + st1.S + " " + cur.S + ")", Sort: SArr}
			}
			if len(cur.S) > 200 {
				nm := e.fresh("arr")
				e.sol.Declare(nm, SArr)
				e.sol.Assert(&Term{S: "(= " + nm + " " + cur.S + ")", Sort: SBool})
				cur = Var(nm, SArr)
			}
		}
		cur = e.nameArr(cur)
		o := st.heap[dst.Obj]
		st.heap[dst.Obj] = &Obj{V: SymArrVal{A: cur, N: db.N, Elem: db.Elem, NeedRange: db.NeedRange || sb.NeedRange}, T: o.T}
		ret(st, n)
		return true
	}
	return e.concretize(st, n, "copy n", func(s1 *State, cnt int) {
		e.concretize(s1, dst.Off, "copy doff", func(s2 *State, o1 int) {
			e.concretize(s2, src.Off, "copy soff", func(s3 *State, o2 int) {
				d := e.backing(s3, dst.Obj).(ArrayVal)
				sv := e.backing(s3, src.Obj).(ArrayVal)
				ne := append([]Value(nil), d.E...)
				copy(ne[o1:o1+cnt], sv.E[o2:o2+cnt])
				o := s3.heap[dst.Obj]
				s3.heap[dst.Obj] = &Obj{V: ArrayVal{E: ne}, T: o.T}
				ret(s3, KInt64(int64(cnt)))
			})
		})
	})
}

// ---------- floats (tagged reals) ----------

var (
	fkFinite = KInt64(0)
	fkPInf   = KInt64(1)
	fkNInf   = KInt64(2)
	fkNaN    = KInt64(3)
	maxF64   *big.Rat
)

var minDenorm *big.Rat

func init() {
	maxF64 = new(big.Rat)
	maxF64.SetFloat64(1.7976931348623157e308)
	minDenorm = new(big.Rat)
	minDenorm.SetFloat64(5e-324)
}

func isFin(f FloatVal) *Term  { return Eq(f.Kind, fkFinite) }
func isNaN(f FloatVal) *Term  { return Eq(f.Kind, fkNaN) }
func isPInf(f FloatVal) *Term { return Eq(f.Kind, fkPInf) }
func isNInf(f FloatVal) *Term { return Eq(f.Kind, fkNInf) }

var rZero = KReal(new(big.Rat))

// sign of a float as seen by comparisons: -1, 0, 1 for non-NaN
func fPos(f FloatVal) *Term {
	return Or(isPInf(f), And(isFin(f), Lt(rZero, f.V)))
}
func fNeg(f FloatVal) *Term {
	return Or(isNInf(f), And(isFin(f), Lt(f.V, rZero)))
}
func fZero(f FloatVal) *Term { return And(isFin(f), Eq(f.V, rZero)) }

func (e *Engine) fneg(f FloatVal) FloatVal {
	k := Ite(isPInf(f), fkNInf, Ite(isNInf(f), fkPInf, f.Kind))
	return FloatVal{Kind: e.name(k), V: e.name(RSub(rZero, f.V))}
}

// overflow a finite real result to ±Inf when it exceeds MaxFloat64
func (e *Engine) fround(kind *Term, v *Term) FloatVal {
	mx := KReal(maxF64)
	over := And(Eq(kind, fkFinite), Lt(mx, v))
	under := And(Eq(kind, fkFinite), Lt(v, RSub(rZero, mx)))
	k := Ite(over, fkPInf, Ite(under, fkNInf, kind))
	return FloatVal{Kind: e.name(k), V: e.name(v)}
}

func (e *Engine) fbinop(op token.Token, a, b FloatVal) Value {
	switch op {
	case token.LSS, token.LEQ, token.GTR, token.GEQ:
		return e.fcmp(op, a, b)
	}
	nan := Or(isNaN(a), isNaN(b))
	bothFin := And(isFin(a), isFin(b))
	switch op {
	case token.ADD, token.SUB:
		bb := b
		if op == token.SUB {
			bb = e.fneg(b)
		}
		// inf + (-inf) = NaN
		opp := Or(And(isPInf(a), isNInf(bb)), And(isNInf(a), isPInf(bb)))
		kind := Ite(Or(nan, opp), fkNaN,
			Ite(Or(isPInf(a), isPInf(bb)), fkPInf,
				Ite(Or(isNInf(a), isNInf(bb)), fkNInf, fkFinite)))
		return e.fround(e.name(kind), Ite(bothFin, RAdd(a.V, bb.V), rZero))
	case token.MUL:
		zeroInf := Or(And(fZero(a), Not(isFin(b))), And(fZero(b), Not(isFin(a))))
		neg := Not(Eq(fNeg(a), fNeg(b)))
		anyInf := Or(Not(isFin(a)), Not(isFin(b)))
		kind := Ite(Or(nan, zeroInf), fkNaN, Ite(anyInf, Ite(neg, fkNInf, fkPInf), fkFinite))
		return e.fround(e.name(kind), Ite(bothFin, RMul(a.V, b.V), rZero))
	case token.QUO:
		// finite/0: ±Inf (0/0 NaN); inf/inf NaN; finite/inf 0; inf/finite inf
		zz := And(fZero(a), fZero(b))
		ii := And(Not(isFin(a)), Not(isFin(b)))
		neg := Not(Eq(fNeg(a), fNeg(b))) // sign of zero ignored (idealisation: +0)
		divZero := And(isFin(a), fZero(b), Not(fZero(a)))
		kind := Ite(Or(nan, zz, ii), fkNaN,
			Ite(Or(divZero, Not(isFin(a))), Ite(neg, fkNInf, fkPInf), fkFinite))
		safeB := Ite(Eq(b.V, rZero), KReal(big.NewRat(1, 1)), b.V)
		return e.fround(e.name(kind), Ite(And(bothFin, Not(fZero(b))), RDiv(a.V, safeB), rZero))
	}
	unsup("float binop %s", op)
	return nil
}

func (e *Engine) fcmp(op token.Token, a, b FloatVal) *Term {
	nan := Or(isNaN(a), isNaN(b))
	// total order on non-NaN: -inf < finite < +inf
	lt := Or(
		And(isNInf(a), Not(isNInf(b))),
		And(isFin(a), isPInf(b)),
		And(isFin(a), isFin(b), Lt(a.V, b.V)))
	eq := Or(And(isFin(a), isFin(b), Eq(a.V, b.V)), And(isPInf(a), isPInf(b)), And(isNInf(a), isNInf(b)))
	switch op {
	case token.EQL:
		return And(Not(nan), eq)
	case token.LSS:
		return And(Not(nan), lt)
	case token.LEQ:
		return And(Not(nan), Or(lt, eq))
	case token.GTR:
		return And(Not(nan), Not(lt), Not(eq))
	case token.GEQ:
		return And(Not(nan), Not(lt))
	}
	unsup("float cmp %s", op)
	return nil
}

// int(f): amd64 CVTTSD2SQ semantics — NaN / out of range gives MinInt64
func (e *Engine) floatToInt(f FloatVal, to types.Type) Value {
	ii := intInfoOf(to)
	tr := Ite(Ge(f.V, rZero), ToIntFloor(f.V), Neg(ToIntFloor(RSub(rZero, f.V))))
	minI := KInt(new(big.Int).Neg(pow2(63)))
	in64 := And(isFin(f), Le(minI, tr), Le(tr, KInt(new(big.Int).Sub(pow2(63), big1))))
	v := e.name(Ite(in64, tr, minI))
	if ii.bits == 64 && ii.signed {
		nv := *v
		nv.Lo, nv.Hi = ii.lo, ii.hi
		return &nv
	}
	return e.norm(v, to)
}

// ---------- findings ----------

func (e *Engine) reportFinding(st *State, kind, label, site string) {
	key := kind + "|" + label + "|" + site + "|" + strings.Join(st.known, ",")
	if e.findKey[key] {
		return
	}
	// the path must be feasible under the real library functions (uninterpreted-function refinement)
	pr := e.satRefined(st, nil)
	if pr == "unsat" {
		e.res.Discharged++
		e.res.Intrinsics["<path refuted by UF refinement>"]++
		return
	}
	var inputs map[string]any
	if pr == "sat" {
		inputs = e.modelFromCurrent(st)
		e.sol.EndQuery()
	}
	e.res.Violated++
	if len(e.res.Findings) >= e.maxFind {
		return
	}
	e.findKey[key] = true
	f := &Finding{Harness: e.cfg.Fn, Kind: kind, Label: label, Site: site, Known: append([]string(nil), st.known...),
		Params: e.cfg.Params, Status: "candidate"}
	tr := st.trace
	if len(tr) > 24 {
		tr = tr[len(tr)-24:]
	}
	f.Trace = append([]string(nil), tr...)
	f.Inputs = inputs
	if f.Inputs == nil {
		f.Status = "no-model"
		delete(e.findKey, key)
		if e.noModel[key] {
			return
		}
		e.noModel[key] = true
	}
	e.res.Findings = append(e.res.Findings, f)
}
