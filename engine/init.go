package main

import (
	"fmt"
	"go/types"
	"math/big"
	"sort"
	"strings"

	"golang.org/x/tools/go/ssa"
)

var defaultInitPkgs = []string{
	"errors", "io", "bufio", "bytes", "strings", "strconv", "sort", "unicode/utf8", "math/bits",
	"net/url", "context", "net/textproto", "internal/bytealg", "internal/stringslite", "slices", "cmp",
}

func (e *Engine) initAllowed(path string) bool {
	return strings.HasPrefix(path, modPath) || e.initPkgs[path]
}

// initGlobals allocates the globals of all packages on the init list and runs their
// initialisers (tolerantly: what cannot be executed becomes an opaque value).
func (e *Engine) initGlobals(st *State, hp *ssa.Package) {
	e.initPkgs = map[string]bool{}
	for _, p := range defaultInitPkgs {
		e.initPkgs[p] = true
	}
	for _, p := range e.cfg.InitPkgs {
		e.initPkgs[p] = true
	}
	var pk []*ssa.Package
	for _, p := range e.prog.AllPackages() {
		if e.initAllowed(p.Pkg.Path()) {
			pk = append(pk, p)
		}
	}
	sort.Slice(pk, func(i, j int) bool { return pk[i].Pkg.Path() < pk[j].Pkg.Path() })
	for _, p := range pk {
		var names []string
		for n, m := range p.Members {
			if _, ok := m.(*ssa.Global); ok {
				names = append(names, n)
			}
		}
		sort.Strings(names)
		for _, n := range names {
			g := p.Members[n].(*ssa.Global)
			et := g.Type().Underlying().(*types.Pointer).Elem()
			id := st.newObj(zeroValue(et), et)
			st.globals[g] = id
		}
		// globals assigned by the initialiser start out opaque until the store is executed
		if ini := p.Func("init"); ini != nil {
			for _, b := range ini.Blocks {
				for _, in := range b.Instrs {
					if s, ok := in.(*ssa.Store); ok {
						if g, ok := s.Addr.(*ssa.Global); ok && g.Name() != "init$guard" {
							if id, ok := st.globals[g]; ok {
								st.heap[id] = &Obj{V: OpaqueVal{"uninitialised " + g.String()}, T: st.heap[id].T}
							}
						}
					}
				}
			}
		}
	}
	ini := hp.Func("init")
	if ini == nil {
		return
	}
	saveCfg := *e.cfg
	e.cfg.MaxInstrs = 3_000_000
	e.cfg.GoPolicy = "skip"
	st.fr = &Frame{fn: ini, blk: ini.Blocks[0], locals: map[ssa.Value]Value{}, tolerant: true,
		onRet: func(s *State, rv Value) { s.fr = nil }}
	paths := e.res.Paths
	e.run(st)
	*e.cfg = saveCfg
	st.instrs = 0
	st.fr = nil
	st.panic = nil
	// init must be deterministic: exactly zero path ends (it returns through onRet)
	if e.res.Paths != paths {
		e.res.Assumptions["package initialisation did not complete normally"]++
		e.res.Paths = paths
		e.res.PathsReturned, e.res.PathsPanicked = 0, 0
	}
	e.res.Funcs = map[string]int{}
	e.res.Intrinsics = map[string]int{}
	e.res.Instrs = 0
}

// tolerantRecover handles an unsupported operation inside package initialisation:
// value instructions yield an opaque value; control instructions abort the initialiser.
func (e *Engine) tolerantRecover(st *State, msg string) bool {
	fr := st.fr
	if fr == nil || !fr.tolerant {
		return false
	}
	if strings.Contains(msg, "budget exceeded") {
		st.instrs = 0
	} else if fr.pc < len(fr.blk.Instrs) {
		in := fr.blk.Instrs[fr.pc]
		switch x := in.(type) {
		case *ssa.If, *ssa.Jump, *ssa.Return, *ssa.Panic, *ssa.RunDefers:
			_ = x
		default:
			if v, ok := in.(ssa.Value); ok {
				fr.locals[v] = OpaqueVal{"unsupported in init: " + msg}
			}
			fr.pc++
			return true
		}
	}
	// a control instruction cannot be executed: give up on the current function call. Inside a
	// helper the call yields an opaque result; inside a package initialiser the rest of that
	// initialiser is skipped.
	f := st.fr
	if f.fn.Name() == "init" && f.fn.Synthetic != "" {
		e.res.Assumptions[fmt.Sprintf("initialiser of %s aborted (%s); its remaining globals are opaque", f.fn.Pkg.Pkg.Path(), truncate(msg, 80))]++
	}
	st.fr = f.caller
	if f.onRet != nil {
		f.onRet(st, opaqueResults(f.fn))
	}
	return true
}

func opaqueResults(fn *ssa.Function) Value {
	res := fn.Signature.Results()
	switch res.Len() {
	case 0:
		return nil
	case 1:
		return OpaqueVal{"result of aborted " + fn.Name()}
	}
	t := make(TupleVal, res.Len())
	for i := range t {
		t[i] = OpaqueVal{"result of aborted " + fn.Name()}
	}
	return t
}

func truncate(s string, n int) string {
	if len(s) > n {
		return s[:n] + "..."
	}
	return s
}

// ---------- model extraction ----------

func (e *Engine) model(st *State) map[string]any {
	r := e.satRefined(st, nil)
	if r != "sat" {
		return nil
	}
	defer e.sol.EndQuery()
	return e.modelFromCurrent(st)
}

func (e *Engine) reportFindingInQuery(st *State, kind, label, site string) {
	key := kind + "|" + label + "|" + site + "|" + strings.Join(st.known, ",")
	if e.findKey[key] {
		return
	}
	e.res.Violated++
	if len(e.res.Findings) >= e.maxFind {
		return
	}
	e.findKey[key] = true
	f := &Finding{Harness: e.cfg.Fn, Kind: kind, Label: label, Site: site, Known: append([]string(nil), st.known...),
		Params: e.cfg.Params, Status: "candidate"}
	tr := st.trace
	if len(tr) > 24 {
		tr = tr[len(tr)-24:]
	}
	f.Trace = append([]string(nil), tr...)
	f.Inputs = e.modelFromCurrent(st)
	if f.Inputs == nil {
		f.Status = "no-model"
		// another path may yield a model for the same assertion
		delete(e.findKey, key)
		if e.noModel[key] {
			return
		}
		e.noModel[key] = true
	}
	e.res.Findings = append(e.res.Findings, f)
}

func (e *Engine) modelFromCurrent(st *State) map[string]any {
	var exprs []string
	type slot struct {
		in   *Input
		what string
	}
	var slots []slot
	for _, in := range st.inputs {
		switch in.Kind {
		case "int", "bool", "string":
			exprs = append(exprs, in.Term.S)
			slots = append(slots, slot{in, "v"})
		case "float":
			exprs = append(exprs, in.FKind.S, in.Term.S)
			slots = append(slots, slot{in, "fk"}, slot{in, "v"})
		case "bytes":
			exprs = append(exprs, in.Len.S)
			slots = append(slots, slot{in, "len"})
		}
	}
	out := map[string]any{}
	if len(exprs) == 0 {
		return out
	}
	vals, ok := e.sol.Values(exprs)
	if !ok {
		return nil
	}
	lens := map[*Input]int{}
	for i, s := range slots {
		v := vals[i]
		ent, _ := out[s.in.Label].(map[string]any)
		if ent == nil {
			ent = map[string]any{"kind": s.in.Kind, "type": s.in.Type}
			out[s.in.Label] = ent
		}
		switch s.in.Kind {
		case "int":
			ent["v"] = v.Num()
		case "bool":
			ent["v"] = v.Atom == "true"
		case "string":
			cps := smtUnescape(v.Atom)
			bs := make([]int, len(cps))
			for j, c := range cps {
				if c > 255 {
					ent["non_byte_char"] = true
					c = '?'
				}
				bs[j] = c
			}
			ent["bytes"] = bs
			ent["text"] = printable(bs)
		case "float":
			ent[s.what] = v.Num()
		case "bytes":
			n := 0
			fmt.Sscan(v.Num(), &n)
			lens[s.in] = n
		}
	}
	for _, in := range st.inputs {
		if in.Kind != "bytes" {
			continue
		}
		n := lens[in]
		if n > in.Max {
			n = in.Max
		}
		bs := make([]int, n)
		if n > 0 {
			var ex []string
			for i := 0; i < n; i++ {
				ex = append(ex, fmt.Sprintf("(select %s %d)", in.Term.S, i))
			}
			vs, ok := e.sol.Values(ex)
			if !ok {
				return nil
			}
			for i, v := range vs {
				b, _ := new(big.Int).SetString(v.Num(), 10)
				if b != nil {
					bs[i] = int(new(big.Int).Mod(b, big.NewInt(256)).Int64())
				}
			}
		}
		out[in.Label].(map[string]any)["bytes"] = bs
	}
	return out
}

func printable(bs []int) string {
	var b strings.Builder
	for _, c := range bs {
		if c >= 32 && c < 127 {
			b.WriteByte(byte(c))
		} else {
			fmt.Fprintf(&b, "\\x%02x", c)
		}
	}
	return b.String()
}
