package main

// Persistent solver processes. One incremental z3 whose assertion stack mirrors
// the DFS, plus fall-back processes that are asked the same query in a fresh
// context (z3 with a tactic, cvc5, old z3) when the incremental one times out.

import (
	"bufio"
	"fmt"
	"io"
	"os"
	"os/exec"
	"strconv"
	"strings"
	"time"
)

type proc struct {
	name    string
	args    []string
	kind    string // "z3" | "cvc5"
	cmd     *exec.Cmd
	in      io.WriteCloser
	out     *bufio.Reader
	marker  int
	timeout int // ms
	dead    bool
	owner   *Solver
}

func startProc(name, kind string, timeoutMs int, args ...string) *proc {
	p := &proc{name: name, kind: kind, args: args, timeout: timeoutMs}
	p.start()
	return p
}

func (p *proc) start() {
	if p.owner != nil && p.owner.abandoned {
		p.dead = true
		return
	}
	c := exec.Command(p.args[0], p.args[1:]...)
	in, _ := c.StdinPipe()
	out, _ := c.StdoutPipe()
	c.Stderr = nil
	if err := c.Start(); err != nil {
		fmt.Fprintln(os.Stderr, "cannot start", p.args, err)
		p.dead = true
		return
	}
	p.cmd, p.in, p.out = c, in, bufio.NewReaderSize(out, 1<<20)
	p.dead = false
	p.preamble()
}

func (p *proc) preamble() {
	switch p.kind {
	case "z3":
		fmt.Fprintf(p.in, "(set-option :produce-models true)\n(set-option :timeout %d)\n", p.timeout)
	case "cvc5":
		fmt.Fprintf(p.in, "(set-logic ALL)\n")
	}
}

func (p *proc) kill() {
	if p.cmd != nil && p.cmd.Process != nil {
		p.cmd.Process.Kill()
		p.cmd.Wait()
	}
	p.dead = true
}

// send text, then read lines until the echo marker; a watchdog kills the process
// if it exceeds 3x its own time-out (solver time-outs are not always honoured).
func (p *proc) roundtrip(text string) (lines []string, ok bool) {
	if p.dead {
		return nil, false
	}
	p.marker++
	mk := fmt.Sprintf("<<m%d>>", p.marker)
	if _, err := io.WriteString(p.in, text+"\n(echo \""+mk+"\")\n"); err != nil {
		p.kill()
		return nil, false
	}
	done := make(chan struct{})
	killed := false
	go func() {
		select {
		case <-done:
		case <-time.After(time.Duration(p.timeout*3+5000) * time.Millisecond):
			killed = true
			p.cmd.Process.Kill()
		}
	}()
	defer close(done)
	for {
		line, err := p.out.ReadString('\n')
		if err != nil {
			p.kill()
			_ = killed
			return lines, false
		}
		line = strings.TrimRight(line, "\r\n")
		if strings.Contains(line, mk) {
			return lines, true
		}
		if line != "" {
			lines = append(lines, line)
		}
	}
}

type SolverStats struct {
	Queries, Sat, Unsat, Unknown int
	FreshQueries                 int
	Errors                       int
	Time                         time.Duration
	Slow                         int
}

type Solver struct {
	inc     *proc
	fresh   []*proc
	stack   [][]string
	St      SolverStats
	Verbose bool
	abandoned bool
	FreshOnly bool // skip the incremental process (string-heavy harnesses)
	cur     *proc // process holding the state of the last Query
	curInc  bool
	logf    *os.File
}

type SolverCfg struct {
	IncTimeoutMs   int
	FreshTimeoutMs int
}

func NewSolver(cfg SolverCfg) *Solver {
	s := &Solver{stack: [][]string{nil}}
	s.inc = startProc("z3-new-inc", "z3", cfg.IncTimeoutMs, "z3-new", "-in")
	s.fresh = []*proc{
		startProc("z3-new-fresh", "z3", cfg.FreshTimeoutMs, "z3-new", "-in"),
		startProc("cvc5-fresh", "cvc5", cfg.FreshTimeoutMs, "cvc5", "--incremental", "--strings-exp", "--produce-models", "--tlimit-per="+strconv.Itoa(cfg.FreshTimeoutMs), "--lang=smt2"),
	}
	s.inc.owner = s
	for _, p := range s.fresh {
		p.owner = s
	}
	if f := os.Getenv("SYMGO_SMTLOG"); f != "" {
		s.logf, _ = os.Create(f)
	}
	return s
}

// Abandon kills every process and prevents restarts (hard time-out of a harness)
func (s *Solver) Abandon() {
	s.abandoned = true
	s.inc.kill()
	for _, p := range s.fresh {
		p.kill()
	}
}

func (s *Solver) Close() {
	s.inc.kill()
	for _, p := range s.fresh {
		p.kill()
	}
}

func (s *Solver) sendInc(cmd string) {
	if s.logf != nil {
		fmt.Fprintln(s.logf, cmd)
	}
	if !s.inc.dead && !s.FreshOnly {
		if _, err := io.WriteString(s.inc.in, cmd+"\n"); err != nil {
			s.inc.kill()
		}
	}
}

func (s *Solver) Push() {
	s.stack = append(s.stack, nil)
	s.sendInc("(push 1)")
}
func (s *Solver) Pop() {
	s.stack = s.stack[:len(s.stack)-1]
	s.sendInc("(pop 1)")
}
func (s *Solver) Depth() int { return len(s.stack) }
func (s *Solver) cmd(c string) {
	s.stack[len(s.stack)-1] = append(s.stack[len(s.stack)-1], c)
	s.sendInc(c)
}
func (s *Solver) Declare(name string, sort Sort) {
	s.cmd("(declare-const " + name + " " + sort.smt() + ")")
}
func (s *Solver) DeclareRaw(c string) { s.cmd(c) }
func (s *Solver) Assert(t *Term) {
	if t.K && t.B {
		return
	}
	s.cmd("(assert " + t.S + ")")
}

// restart the incremental process and replay the whole stack into it
func (s *Solver) reviveInc() {
	s.inc.kill()
	if s.abandoned {
		return
	}
	s.inc.start()
	for i, fr := range s.stack {
		if i > 0 {
			io.WriteString(s.inc.in, "(push 1)\n")
		}
		for _, c := range fr {
			io.WriteString(s.inc.in, c+"\n")
		}
	}
}

func parseRes(lines []string) string {
	res := ""
	for _, l := range lines {
		switch {
		case l == "sat" || l == "unsat" || l == "unknown":
			if res == "" {
				res = l
			}
		case strings.HasPrefix(l, "(error"):
			return "error: " + l
		}
	}
	if res == "" {
		return "unknown"
	}
	return res
}

// identifiers declared by the engine all contain '!'
func varsOf(c string) []string {
	var out []string
	n := len(c)
	for i := 0; i < n; {
		ch := c[i]
		if ch == '"' {
			// skip string literal ("" is an escaped quote)
			i++
			for i < n {
				if c[i] == '"' {
					if i+1 < n && c[i+1] == '"' {
						i += 2
						continue
					}
					break
				}
				i++
			}
			i++
			continue
		}
		if isIdent(ch) {
			j := i
			bang := false
			for j < n && isIdent(c[j]) {
				if c[j] == '!' {
					bang = true
				}
				j++
			}
			if bang {
				out = append(out, c[i:j])
			}
			i = j
			continue
		}
		i++
	}
	return out
}

func isIdent(ch byte) bool {
	return ch >= 'a' && ch <= 'z' || ch >= 'A' && ch <= 'Z' || ch >= '0' && ch <= '9' || ch == '_' || ch == '!' || ch == '.'
}

// body builds the SMT text of the current stack; with a non-nil extra only the
// assertions connected to extra's variables are included (independence slicing —
// sound because the path condition itself is known to be satisfiable).
func (s *Solver) body(extra *Term, slice bool) string {
	var b strings.Builder
	if !slice || extra == nil {
		for _, fr := range s.stack {
			for _, c := range fr {
				b.WriteString(c)
				b.WriteByte('\n')
			}
		}
		if extra != nil {
			b.WriteString("(assert " + extra.S + ")\n")
		}
		return b.String()
	}
	type ent struct {
		cmd  string
		vars []string
		decl string
	}
	var ents []ent
	for _, fr := range s.stack {
		for _, c := range fr {
			e := ent{cmd: c}
			if strings.HasPrefix(c, "(declare-const ") {
				r := c[len("(declare-const "):]
				if k := strings.IndexByte(r, ' '); k > 0 {
					e.decl = r[:k]
				}
			} else if strings.HasPrefix(c, "(assert ") {
				e.vars = varsOf(c)
			}
			ents = append(ents, e)
		}
	}
	live := map[string]bool{}
	for _, v := range varsOf(extra.S) {
		live[v] = true
	}
	used := make([]bool, len(ents))
	for changed := true; changed; {
		changed = false
		for i, e := range ents {
			if used[i] || e.vars == nil {
				continue
			}
			hit := false
			for _, v := range e.vars {
				if live[v] {
					hit = true
					break
				}
			}
			if hit {
				used[i] = true
				changed = true
				for _, v := range e.vars {
					live[v] = true
				}
			}
		}
	}
	for i, e := range ents {
		switch {
		case e.decl != "":
			if live[e.decl] {
				b.WriteString(e.cmd)
				b.WriteByte('\n')
			}
		case e.vars != nil:
			if used[i] {
				b.WriteString(e.cmd)
				b.WriteByte('\n')
			}
		case strings.HasPrefix(e.cmd, "(assert "):
			// variable-free assertion
			b.WriteString(e.cmd)
			b.WriteByte('\n')
		default:
			b.WriteString(e.cmd) // declare-fun etc.
			b.WriteByte('\n')
		}
	}
	b.WriteString("(assert " + extra.S + ")\n")
	return b.String()
}

func (s *Solver) freshText(p *proc, i int, body string) string {
	if p.kind == "z3" {
		q := fmt.Sprintf("(reset)\n(set-option :produce-models true)\n(set-option :timeout %d)\n", p.timeout) + body
		if i == 0 && !strings.Contains(body, "String") && !strings.Contains(body, "str.") {
			return q + "(check-sat-using (then simplify solve-eqs smt))"
		}
		return q + "(check-sat)"
	}
	return "(reset)\n(set-logic ALL)\n" + body + "(check-sat)"
}

// Query asks whether stack ∧ extra is satisfiable. After a "sat" answer Values may be
// called; EndQuery must always be called.
func (s *Solver) Query(extra *Term) string { return s.query(extra, true) }

// QueryFull never slices (needed when a model of all inputs is wanted).
func (s *Solver) QueryFull(extra *Term) string { return s.query(extra, false) }

func (s *Solver) query(extra *Term, slice bool) string {
	t0 := time.Now()
	s.St.Queries++
	res := "unknown"
	s.cur = nil
	if s.abandoned {
		s.St.Unknown++
		return res
	}
	if !s.FreshOnly || (!slice && s.FreshOnly && false) {
		if s.inc.dead {
			s.reviveInc()
		}
		if !s.inc.dead {
			q := "(push 1)\n"
			if extra != nil {
				q += "(assert " + extra.S + ")\n"
			}
			q += "(check-sat)"
			if s.logf != nil {
				fmt.Fprintln(s.logf, q+"\n; ^query")
			}
			lines, ok := s.inc.roundtrip(q)
			if ok {
				res = parseRes(lines)
				s.cur, s.curInc = s.inc, true
			} else {
				s.reviveInc()
			}
		}
		if strings.HasPrefix(res, "error") {
			s.St.Errors++
			if s.Verbose {
				fmt.Fprintln(os.Stderr, "SOLVER", res)
			}
			res = "unknown"
		}
	}
	if res == "unknown" && !s.abandoned {
		if s.cur != nil && s.curInc {
			s.inc.roundtrip("(pop 1)")
			s.cur = nil
		}
		body := s.body(extra, slice)
		if s.logf != nil {
			fmt.Fprintln(s.logf, "; fresh query\n"+body)
		}
		type ans struct {
			i   int
			res string
		}
		ch := make(chan ans, len(s.fresh))
		n := 0
		for i, p := range s.fresh {
			if p.dead {
				p.start()
				if p.dead {
					continue
				}
			}
			n++
			s.St.FreshQueries++
			go func(i int, p *proc) {
				lines, ok := p.roundtrip(s.freshText(p, i, body))
				if !ok {
					ch <- ans{i, "dead"}
					return
				}
				ch <- ans{i, parseRes(lines)}
			}(i, p)
		}
		pending := n
		winner := -1
		got := map[int]bool{}
		for pending > 0 {
			a := <-ch
			pending--
			got[a.i] = true
			if strings.HasPrefix(a.res, "error") {
				s.St.Errors++
				if s.Verbose {
					fmt.Fprintln(os.Stderr, "SOLVER", s.fresh[a.i].name, a.res)
				}
				continue
			}
			if a.res == "sat" || a.res == "unsat" {
				res = a.res
				winner = a.i
				break
			}
		}
		if winner >= 0 {
			// stop the losers
			for i, p := range s.fresh {
				if i != winner && !got[i] && !p.dead {
					p.kill()
				}
			}
			for pending > 0 {
				<-ch
				pending--
			}
			s.cur, s.curInc = s.fresh[winner], false
		}
	}
	d := time.Since(t0)
	s.St.Time += d
	if d > 2*time.Second {
		s.St.Slow++
		if s.Verbose {
			x := ""
			if extra != nil {
				x = extra.S
				if len(x) > 200 {
					x = x[:200] + "..."
				}
			}
			fmt.Fprintf(os.Stderr, "SLOW %s -> %s : %s\n", d.Round(time.Millisecond), res, x)
		}
	}
	switch res {
	case "sat":
		s.St.Sat++
	case "unsat":
		s.St.Unsat++
	default:
		s.St.Unknown++
	}
	return res
}

func (s *Solver) EndQuery() {
	if s.cur != nil && s.curInc {
		if _, ok := s.inc.roundtrip("(pop 1)"); !ok {
			s.reviveInc()
		}
	}
	s.cur = nil
}

// Values evaluates expressions in the model of the last sat Query.
func (s *Solver) Values(exprs []string) ([]*Sexp, bool) {
	if s.cur == nil || len(exprs) == 0 {
		return nil, false
	}
	lines, ok := s.cur.roundtrip("(get-value (" + strings.Join(exprs, " ") + "))")
	if !ok {
		return nil, false
	}
	txt := strings.Join(lines, "\n")
	if strings.Contains(txt, "(error") {
		if s.Verbose {
			fmt.Fprintln(os.Stderr, "GET-VALUE error:", truncate(txt, 300))
		}
		return nil, false
	}
	sx, err := parseSexp(txt)
	if err != nil || sx.Atom != "" || len(sx.List) != len(exprs) {
		if s.Verbose {
			fmt.Fprintln(os.Stderr, "GET-VALUE parse problem:", err, truncate(txt, 300))
		}
		return nil, false
	}
	out := make([]*Sexp, len(exprs))
	for i, pair := range sx.List {
		if len(pair.List) != 2 {
			return nil, false
		}
		out[i] = pair.List[1]
	}
	return out, true
}

// ---------- s-expressions (model values) ----------

type Sexp struct {
	Atom  string
	IsStr bool
	List  []*Sexp
}

func parseSexp(s string) (*Sexp, error) {
	p := &sxp{s: s}
	p.ws()
	x, err := p.parse()
	return x, err
}

type sxp struct {
	s string
	i int
}

func (p *sxp) ws() {
	for p.i < len(p.s) && (p.s[p.i] == ' ' || p.s[p.i] == '\n' || p.s[p.i] == '\t' || p.s[p.i] == '\r') {
		p.i++
	}
}
func (p *sxp) parse() (*Sexp, error) {
	p.ws()
	if p.i >= len(p.s) {
		return nil, fmt.Errorf("eof")
	}
	switch c := p.s[p.i]; {
	case c == '(':
		p.i++
		x := &Sexp{List: []*Sexp{}}
		for {
			p.ws()
			if p.i >= len(p.s) {
				return nil, fmt.Errorf("eof in list")
			}
			if p.s[p.i] == ')' {
				p.i++
				return x, nil
			}
			y, err := p.parse()
			if err != nil {
				return nil, err
			}
			x.List = append(x.List, y)
		}
	case c == '"':
		p.i++
		var b strings.Builder
		for p.i < len(p.s) {
			if p.s[p.i] == '"' {
				if p.i+1 < len(p.s) && p.s[p.i+1] == '"' {
					b.WriteByte('"')
					p.i += 2
					continue
				}
				p.i++
				return &Sexp{Atom: b.String(), IsStr: true}, nil
			}
			b.WriteByte(p.s[p.i])
			p.i++
		}
		return nil, fmt.Errorf("eof in string")
	case c == '|':
		j := strings.IndexByte(p.s[p.i+1:], '|')
		if j < 0 {
			return nil, fmt.Errorf("eof in |")
		}
		a := p.s[p.i : p.i+j+2]
		p.i += j + 2
		return &Sexp{Atom: a}, nil
	default:
		j := p.i
		for j < len(p.s) && !strings.ContainsRune(" \n\t\r()", rune(p.s[j])) {
			j++
		}
		a := p.s[p.i:j]
		p.i = j
		return &Sexp{Atom: a}, nil
	}
}

// decode an SMT-LIB string literal body (\u{..}, \uXXXX escapes) into code points
func smtUnescape(s string) []int {
	var out []int
	for i := 0; i < len(s); {
		if s[i] == '\\' && i+1 < len(s) && s[i+1] == 'u' {
			if i+2 < len(s) && s[i+2] == '{' {
				j := strings.IndexByte(s[i:], '}')
				if j > 0 {
					if v, err := strconv.ParseInt(s[i+3:i+j], 16, 32); err == nil {
						out = append(out, int(v))
						i += j + 1
						continue
					}
				}
			} else if i+6 <= len(s) {
				if v, err := strconv.ParseInt(s[i+2:i+6], 16, 32); err == nil {
					out = append(out, int(v))
					i += 6
					continue
				}
			}
		}
		if s[i] == '\\' && i+1 < len(s) && s[i+1] == 'x' && i+4 <= len(s) {
			if v, err := strconv.ParseInt(s[i+2:i+4], 16, 32); err == nil {
				out = append(out, int(v))
				i += 4
				continue
			}
		}
		out = append(out, int(s[i]))
		i++
	}
	return out
}

func (x *Sexp) String() string {
	if x.IsStr {
		return strconv.Quote(x.Atom)
	}
	if x.Atom != "" {
		return x.Atom
	}
	var parts []string
	for _, y := range x.List {
		parts = append(parts, y.String())
	}
	return "(" + strings.Join(parts, " ") + ")"
}

// numeric value of an Int/Real model value as a decimal/rational string
func (x *Sexp) Num() string {
	if x.Atom != "" {
		return x.Atom
	}
	if len(x.List) == 2 && x.List[0].Atom == "-" {
		return "-" + x.List[1].Num()
	}
	if len(x.List) == 3 && x.List[0].Atom == "/" {
		return strings.TrimSuffix(x.List[1].Num(), ".0") + "/" + strings.TrimSuffix(x.List[2].Num(), ".0")
	}
	return x.String()
}
