package main

// Cooperative goroutines and channels: one legal schedule in which a goroutine runs until it
// blocks (channel operation, WaitGroup.Wait) and the lowest-numbered runnable goroutine
// continues. select over several ready cases forks. Finer interleavings are outside the model.

import (
	"go/types"

	"golang.org/x/tools/go/ssa"
)

type ChanState struct {
	Buf    []Value
	Cap    int
	Closed bool
}

type selCase struct {
	Ch   int
	Send bool
	Val  Value
}

type BlockInfo struct {
	Kind  string // send | recv | select | wg
	Ch    int
	Val   Value
	Cases []selCase
	In    ssa.Instruction
	WG    string
}

type Goroutine struct {
	fr      *Frame
	blocked *BlockInfo
	done    bool
}

func (st *State) curG() *Goroutine {
	if len(st.gs) == 0 {
		st.gs = []*Goroutine{{}}
	}
	return st.gs[st.cur]
}

func cloneGs(gs []*Goroutine, cp func(*Frame) *Frame, cur int) []*Goroutine {
	out := make([]*Goroutine, len(gs))
	for i, g := range gs {
		ng := *g
		if i != cur {
			ng.fr = cp(g.fr)
		}
		if g.blocked != nil {
			b := *g.blocked
			ng.blocked = &b
		}
		out[i] = &ng
	}
	return out
}

func (e *Engine) chanOf(st *State, v Value) (int, *ChanState) {
	c, ok := v.(ChanVal)
	if !ok {
		unsup("channel operation on %s", describe(v))
	}
	if c.Obj == 0 {
		return 0, nil
	}
	cs, _ := st.heap[c.Obj].V.(ChanState)
	return c.Obj, &cs
}

func (e *Engine) setChan(st *State, id int, cs *ChanState) {
	o := st.heap[id]
	st.heap[id] = &Obj{V: *cs, T: o.T}
}

// spawn a goroutine for a go statement
func (e *Engine) spawn(st *State, d Deferred) bool {
	st.curG()
	saved := st.fr
	st.fr = nil
	spawning, immediate := true, false
	ok := e.invokeDeferred(st, d, func(s *State, rv Value) {
		if spawning {
			immediate = true // intrinsic / empty body: finished at once
			return
		}
		// the goroutine's function returned
		s.gs[s.cur].done = true
		s.fr = nil
		e.schedule(s)
	})
	spawning = false
	g := &Goroutine{fr: st.fr}
	if immediate || st.fr == nil {
		g.done = true
	}
	st.gs = append(st.gs, g)
	st.fr = saved
	return ok
}

// schedule picks the next runnable goroutine after the current one blocked or finished.
// Returns false if the path ended.
func (e *Engine) schedule(st *State) bool {
	st.gs[st.cur].fr = st.fr
	for i, g := range st.gs {
		if !g.done && g.blocked == nil && g.fr != nil {
			st.cur = i
			st.fr = g.fr
			return true
		}
	}
	st.fr = nil
	e.endPath(st, "unsupported", "all goroutines blocked (deadlock in the modelled schedule)")
	return false
}

// block the current goroutine
func (e *Engine) block(st *State, b *BlockInfo) bool {
	st.curG().blocked = b
	return e.schedule(st)
}

// complete a blocked receive-like instruction of goroutine g with value v
func (e *Engine) completeRecv(g *Goroutine, in ssa.Instruction, v Value, ok bool) {
	switch x := in.(type) {
	case *ssa.UnOp:
		if x.CommaOk {
			g.fr.locals[x] = TupleVal{v, KBool(ok)}
		} else {
			g.fr.locals[x] = v
		}
	}
	g.fr.pc++
	g.blocked = nil
}

func (e *Engine) completeSelect(g *Goroutine, x *ssa.Select, idx int, recvOK bool, recvVal Value) {
	tt := x.Type().(*types.Tuple)
	tv := make(TupleVal, tt.Len())
	tv[0] = KInt64(int64(idx))
	tv[1] = KBool(recvOK)
	k := 2
	for i, s := range x.States {
		if s.Dir == types.RecvOnly {
			if i == idx && recvVal != nil {
				tv[k] = recvVal
			} else {
				tv[k] = zeroValue(tt.At(k).Type())
			}
			k++
		}
	}
	g.fr.locals[x] = tv
	g.fr.pc++
	g.blocked = nil
}

// a value became available on channel id (sent by the current goroutine): hand it to a blocked receiver
func (e *Engine) wakeReceiver(st *State, id int, v Value) bool {
	for gi, g := range st.gs {
		if gi == st.cur || g.blocked == nil {
			continue
		}
		switch g.blocked.Kind {
		case "recv":
			if g.blocked.Ch == id {
				e.completeRecv(g, g.blocked.In, v, true)
				return true
			}
		case "select":
			for ci, c := range g.blocked.Cases {
				if !c.Send && c.Ch == id {
					e.completeSelect(g, g.blocked.In.(*ssa.Select), ci, true, v)
					return true
				}
			}
		}
	}
	return false
}

// a receiver (current goroutine) wants a value from channel id: take it from a blocked sender
func (e *Engine) takeFromSender(st *State, id int) (Value, bool) {
	for gi, g := range st.gs {
		if gi == st.cur || g.blocked == nil {
			continue
		}
		switch g.blocked.Kind {
		case "send":
			if g.blocked.Ch == id {
				v := g.blocked.Val
				g.fr.pc++
				g.blocked = nil
				return v, true
			}
		case "select":
			for ci, c := range g.blocked.Cases {
				if c.Send && c.Ch == id {
					e.completeSelect(g, g.blocked.In.(*ssa.Select), ci, false, nil)
					return c.Val, true
				}
			}
		}
	}
	return nil, false
}

func (e *Engine) chanSend(st *State, x *ssa.Send) bool {
	id, cs := e.chanOf(st, e.val(st, x.Chan))
	v := e.val(st, x.X)
	if cs == nil {
		return e.block(st, &BlockInfo{Kind: "send", Ch: 0, Val: v, In: x})
	}
	if cs.Closed {
		e.doPanic(st, OpaqueVal{"send on closed channel"}, "panic send on closed channel @ "+e.pos(x), "explicit")
		return true
	}
	st.curG()
	if len(cs.Buf) == 0 && e.wakeReceiver(st, id, v) {
		st.fr.pc++
		return true
	}
	if len(cs.Buf) < cs.Cap {
		cs.Buf = append(append([]Value(nil), cs.Buf...), v)
		e.setChan(st, id, cs)
		st.fr.pc++
		return true
	}
	return e.block(st, &BlockInfo{Kind: "send", Ch: id, Val: v, In: x})
}

// tryRecv: a value is available right now?
func (e *Engine) tryRecv(st *State, id int, cs *ChanState) (Value, bool, bool) {
	if len(cs.Buf) > 0 {
		v := cs.Buf[0]
		cs.Buf = append([]Value(nil), cs.Buf[1:]...)
		// a blocked sender can now fill the buffer
		if sv, ok := e.takeFromSender(st, id); ok {
			cs.Buf = append(cs.Buf, sv)
		}
		e.setChan(st, id, cs)
		return v, true, true
	}
	if v, ok := e.takeFromSender(st, id); ok {
		return v, true, true
	}
	if cs.Closed {
		return nil, false, true
	}
	return nil, false, false
}

func (e *Engine) chanRecv(st *State, x *ssa.UnOp) bool {
	id, cs := e.chanOf(st, e.val(st, x.X))
	st.curG()
	if cs == nil {
		return e.block(st, &BlockInfo{Kind: "recv", Ch: 0, In: x})
	}
	v, ok, ready := e.tryRecv(st, id, cs)
	if !ready {
		return e.block(st, &BlockInfo{Kind: "recv", Ch: id, In: x})
	}
	if !ok {
		v = zeroValue(x.X.Type().Underlying().(*types.Chan).Elem())
	}
	if x.CommaOk {
		st.fr.locals[x] = TupleVal{v, KBool(ok)}
	} else {
		st.fr.locals[x] = v
	}
	st.fr.pc++
	return true
}

func (e *Engine) chanSelect(st *State, x *ssa.Select) bool {
	st.curG()
	type ready struct {
		idx int
	}
	var cases []selCase
	var rdy []int
	for i, s := range x.States {
		id, cs := e.chanOf(st, e.val(st, s.Chan))
		c := selCase{Ch: id, Send: s.Dir == types.SendOnly}
		if c.Send {
			c.Val = e.val(st, s.Send)
		}
		cases = append(cases, c)
		if cs == nil {
			continue
		}
		if c.Send {
			if cs.Closed || len(cs.Buf) < cs.Cap || e.hasBlockedReceiver(st, id) {
				rdy = append(rdy, i)
			}
		} else if len(cs.Buf) > 0 || cs.Closed || e.hasBlockedSender(st, id) {
			rdy = append(rdy, i)
		}
	}
	me := st.curG()
	fire := func(s *State, i int) {
		g := s.gs[s.cur]
		g.fr = s.fr
		c := cases[i]
		_, cs := e.chanOf(s, ChanVal{Obj: c.Ch})
		if c.Send {
			if cs.Closed {
				e.doPanic(s, OpaqueVal{"send on closed channel"}, "panic send on closed channel", "explicit")
				return
			}
			if !(len(cs.Buf) == 0 && e.wakeReceiver(s, c.Ch, c.Val)) {
				cs.Buf = append(append([]Value(nil), cs.Buf...), c.Val)
				e.setChan(s, c.Ch, cs)
			}
			e.completeSelect(g, x, i, false, nil)
			return
		}
		v, ok, _ := e.tryRecv(s, c.Ch, cs)
		if !ok {
			v = nil
		}
		e.completeSelect(g, x, i, ok, v)
	}
	_ = me
	switch len(rdy) {
	case 0:
		if !x.Blocking {
			e.completeSelect(st.curG(), x, -1, false, nil)
			st.curG().fr = st.fr
			return true
		}
		return e.block(st, &BlockInfo{Kind: "select", Cases: cases, In: x})
	case 1:
		fire(st, rdy[0])
		return true
	}
	// several ready cases: every choice is a legal behaviour
	var alts []Alt
	for _, i := range rdy {
		i := i
		alts = append(alts, Alt{Cond: tTrue, Tag: "select", Do: func(s *State) { fire(s, i) }})
	}
	return e.branchAll(st, alts)
}

func (e *Engine) hasBlockedReceiver(st *State, id int) bool {
	for gi, g := range st.gs {
		if gi == st.cur || g.blocked == nil {
			continue
		}
		if g.blocked.Kind == "recv" && g.blocked.Ch == id {
			return true
		}
		if g.blocked.Kind == "select" {
			for _, c := range g.blocked.Cases {
				if !c.Send && c.Ch == id {
					return true
				}
			}
		}
	}
	return false
}

func (e *Engine) hasBlockedSender(st *State, id int) bool {
	for gi, g := range st.gs {
		if gi == st.cur || g.blocked == nil {
			continue
		}
		if g.blocked.Kind == "send" && g.blocked.Ch == id {
			return true
		}
		if g.blocked.Kind == "select" {
			for _, c := range g.blocked.Cases {
				if c.Send && c.Ch == id {
					return true
				}
			}
		}
	}
	return false
}

func (e *Engine) chanClose(st *State, v Value) {
	id, cs := e.chanOf(st, v)
	if cs == nil {
		e.doPanic(st, OpaqueVal{"close of nil channel"}, "panic close of nil channel", "explicit")
		return
	}
	if cs.Closed {
		e.doPanic(st, OpaqueVal{"close of closed channel"}, "panic close of closed channel", "explicit")
		return
	}
	cs.Closed = true
	e.setChan(st, id, cs)
	st.curG()
	// wake every receiver
	for gi, g := range st.gs {
		if gi == st.cur || g.blocked == nil {
			continue
		}
		switch g.blocked.Kind {
		case "recv":
			if g.blocked.Ch == id {
				in := g.blocked.In.(*ssa.UnOp)
				e.completeRecv(g, in, zeroValue(in.X.Type().Underlying().(*types.Chan).Elem()), false)
			}
		case "select":
			for ci, c := range g.blocked.Cases {
				if !c.Send && c.Ch == id {
					e.completeSelect(g, g.blocked.In.(*ssa.Select), ci, false, nil)
					break
				}
			}
		}
	}
}

// branchAll explores every alternative without asking the solver (all are feasible)
func (e *Engine) branchAll(st *State, alts []Alt) bool {
	states := make([]*State, len(alts))
	for i := range alts {
		if i == len(alts)-1 {
			states[i] = st
		} else {
			states[i] = st.clone()
		}
	}
	for i, a := range alts {
		if e.stop() {
			e.endPath(states[i], "budget", "")
			continue
		}
		s := states[i]
		e.sol.Push()
		s.trace = append(s.trace, a.Tag)
		e.runWith(s, a.Do)
		e.sol.Pop()
	}
	return false
}
